#!/usr/bin/env python3
"""Self-validation: apply a deliberate break to /repo's working tree, run a check, restore.

  tools/mut.py list
  tools/mut.py run <mutant-id> [tier] [--tests]      one mutant of mutants/specs.json against its check(s)
  tools/mut.py all [tier] [--tests] [--prop Cnn]     every mutant; prints a caught/missed table
  tools/mut.py patch <file.diff> <Cnn> [tier]        an arbitrary patch (e.g. seeded/<id>/patch.diff)

/repo is always restored with `git checkout -- .` (also on error).  Nothing is committed.
"""
import json
import os
import subprocess
import sys
import time

VERIF = os.path.dirname(os.path.dirname(os.path.abspath(__file__)))
MAIN_REPO = "/repo"
# own mutants are applied to a scratch git worktree of /repo (checks are pointed at it with VF_REPO), so /repo itself stays clean
REPO = os.environ.get("MUT_WT") or "/tmp/mutwt_%d" % os.getpid()
SPECS = os.path.join(VERIF, "mutants", "specs.json")
BASE = ["/venv/bin/python", "-B", "-m", "pytest", "-q", "-p", "no:cacheprovider", "--timeout=900"]


def sh(cmd, **kw):
    return subprocess.run(cmd, capture_output=True, text=True, **kw)


def ensure_wt():
    if not os.path.isdir(os.path.join(REPO, "simple_ddl_parser")):
        r = sh(["git", "-C", MAIN_REPO, "worktree", "add", "--detach", REPO, "HEAD"])
        if r.returncode:
            raise SystemExit("cannot create scratch worktree: " + r.stderr)


def drop_wt():
    sh(["git", "-C", MAIN_REPO, "worktree", "remove", "--force", REPO])
    import shutil
    shutil.rmtree(REPO, ignore_errors=True)


def clean():
    ensure_wt()
    r = sh(["git", "-C", REPO, "status", "--porcelain"])
    return r.stdout.strip() == ""


def restore():
    sh(["git", "-C", REPO, "checkout", "--", "."])


def apply_spec(spec):
    for ed in spec["edits"]:
        path = os.path.join(REPO, ed["file"])
        s = open(path).read()
        if s.count(ed["old"]) < 1:
            raise SystemExit("mutant %s: pattern not found in %s: %r" % (spec["id"], ed["file"], ed["old"][:60]))
        s = s.replace(ed["old"], ed["new"], ed.get("count", 1))
        open(path, "w").write(s)


def run_tests():
    r = sh(BASE, cwd=REPO, env=dict(os.environ, PYTHONPATH=REPO))
    tail = r.stdout.strip().splitlines()[-1] if r.stdout.strip() else r.stderr[-200:]
    return r.returncode == 0, tail


def run_check(prop, tier, seed=None):
    env = dict(os.environ, VF_REPO=REPO)
    if seed is not None:
        env["VERIF_SEED"] = str(seed)
    t0 = time.time()
    r = sh([os.path.join(VERIF, "check"), prop, tier], cwd=VERIF, env=env)
    first = [l for l in r.stdout.splitlines() if l.startswith(("VIOLATION", "INCONCLUSIVE", "OK", "  kind="))][:3]
    return r.returncode, time.time() - t0, first


def one(spec, tier, tests):
    if not clean():
        raise SystemExit("/repo is not clean; refusing")
    out = {"id": spec["id"], "props": spec["props"]}
    try:
        apply_spec(spec)
        if tests:
            ok, tail = run_tests()
            out["tests"] = "pass" if ok else "FAIL " + tail
        out["checks"] = {}
        for prop in spec["props"]:
            rc, wall, first = run_check(prop, tier)
            out["checks"][prop] = {"rc": rc, "wall": round(wall, 1), "out": first}
    finally:
        restore()
    return out


def main(argv):
    if not argv or argv[0] == "list":
        for s in json.load(open(SPECS)):
            print(s["id"], s["props"], "-", s.get("note", ""))
        return 0
    tests = "--tests" in argv
    argv = [a for a in argv if a != "--tests"]
    only = None
    if "--prop" in argv:
        i = argv.index("--prop")
        only = argv[i + 1]
        del argv[i:i + 2]
    sl = None
    if "--slice" in argv:
        i = argv.index("--slice")
        sl = tuple(map(int, argv[i + 1].split("/")))
        del argv[i:i + 2]
    if argv[0] == "merge":
        import glob
        allres = {}
        for f in sorted(glob.glob(os.path.join(VERIF, "mutants", "RESULTS.*.json"))):
            allres.update(json.load(open(f)))
            os.remove(f)
        old = os.path.join(VERIF, "mutants", "RESULTS.json")
        base = json.load(open(old)) if os.path.exists(old) else {}
        base.update(allres)
        json.dump(base, open(old, "w"), indent=1, sort_keys=True)
        print(len(base), "results")
        return 0
    if argv[0] == "patch":
        diff, prop = argv[1], argv[2]
        tier = argv[3] if len(argv) > 3 else "quick"
        if not clean():
            raise SystemExit("/repo is not clean; refusing")
        try:
            ensure_wt()
            r = sh(["git", "-C", REPO, "apply", os.path.abspath(diff)])
            if r.returncode:
                raise SystemExit("patch does not apply: " + r.stderr)
            if tests:
                print("tests:", run_tests())
            rc, wall, first = run_check(prop, tier)
            print("check %s %s -> rc=%d (%.1fs)" % (prop, tier, rc, wall))
            for l in first:
                print("   ", l[:300])
        finally:
            restore()
        return 0
    specs = json.load(open(SPECS))
    tier = "quick"
    if argv[0] == "run":
        specs = [s for s in specs if s["id"] == argv[1]]
        if len(argv) > 2:
            tier = argv[2]
    elif argv[0] == "all":
        if len(argv) > 1:
            tier = argv[1]
        if only:
            specs = [s for s in specs if only in s["props"]]
    if sl:
        specs = [s for k, s in enumerate(specs) if k % sl[1] == sl[0]]
    missed = 0
    resp = os.path.join(VERIF, "mutants", "RESULTS.%s.json" % (sl[0] if sl else "x"))
    allres = json.load(open(resp)) if os.path.exists(resp) else {}
    for s in specs:
        o = one(s, tier, tests)
        allres[o["id"]] = {"note": s.get("note", ""), "tests": o.get("tests", allres.get(o["id"], {}).get("tests", "-")), "tier": tier,
                           "checks": {p: {"rc": c["rc"], "verdict": {1: "CAUGHT", 0: "not caught", 2: "INCONCLUSIVE"}.get(c["rc"], str(c["rc"])),
                                          "first": (c["out"][1].strip() if len(c["out"]) > 1 else (c["out"][0] if c["out"] else ""))[:200]} for p, c in o["checks"].items()}}
        json.dump(allres, open(resp, "w"), indent=1, sort_keys=True)
        for prop, c in o["checks"].items():
            status = {1: "CAUGHT", 0: "MISSED", 2: "INCONCLUSIVE"}.get(c["rc"], "rc=%s" % c["rc"])
            if c["rc"] != 1:
                missed += 1
            print("%-34s %-4s %-12s %5.1fs tests=%s  %s" % (o["id"], prop, status, c["wall"], o.get("tests", "-"), (c["out"][1] if len(c["out"]) > 1 else (c["out"][0] if c["out"] else ""))[:160]))
        sys.stdout.flush()
    print("not caught:", missed)
    drop_wt()
    return 0


if __name__ == "__main__":
    sys.exit(main(sys.argv[1:]))
