#!/usr/bin/env python3
"""Regenerate MANIFEST.json from the table below (run from /verif)."""
import json, os, importlib, sys
sys.path.insert(0, os.path.dirname(os.path.dirname(os.path.abspath(__file__))))
BASE = "cd /repo && /venv/bin/python -m pytest -ra -q -p no:cacheprovider --timeout=900 --continue-on-collection-errors"
CHECKS = json.load(open(os.path.join(os.path.dirname(__file__), "checks.json")))
props = [json.loads(l)["id"] for l in open("properties.jsonl")]
checks, na = [], []
for pid in props:
    c = CHECKS.get(pid)
    if not c or c.get("not_applicable"):
        na.append({"property_id": pid, "reason": (c or {}).get("not_applicable", "check not built yet (work in progress; the design in DESIGN.md 6 applies)")})
        continue
    checks.append({
        "property_id": pid,
        "quick_cmd": "./check %s quick" % pid,
        "thorough_cmd": "./check %s thorough" % pid,
        "evidence_file": "evidence/%s.json" % pid,
        "replay_cmd_template": "./check %s --replay {path}" % pid,
        "engine": "vf",
        "level_claimed": {"category": c.get("category", "exploration"), "text": c["text"], "design_ref": "DESIGN.md 6 (%s)" % pid},
        "level_note": c["note"],
        "technique": c["technique"],
    })
m = {
    "version": 1,
    "setup_cmd": "mkdir -p evidence replays && /venv/bin/python -B -c 'import ply, sys; sys.path.insert(0, \".\"); import vf.main'",
    "hooks": {
        "guard": "SIMPLE_DDL_PARSER_VERIF",
        "enable": "no in-tree hooks: all instrumentation is attached from /verif/vf/monitor at import time in the check's worker processes (which set SIMPLE_DDL_PARSER_VERIF=1) against a scratch snapshot of /repo's working tree",
        "baseline_off_cmd": BASE,
        "source_commits": [],
        "add_only": True,
    },
    "engines": [{"name": "vf", "path": "vf/", "serves_properties": [c["property_id"] for c in checks],
                 "kind_free_text": "runtime monitoring: generated/hostile workloads executed on the real code with boundary recorders, hooked-state assertions, reference-model and relational oracles (pure stdlib, /venv/bin/python)"}],
    "checks": checks,
    "not_applicable": na,
    "notes": "Verdicts are three-valued: exit 0 held on what was observed, exit 1 VIOLATION (+replay), exit 2 inconclusive. Known genuine defects are in known_findings.json (reported as KNOWN-FINDING lines). fix: commits in /repo are listed there under 'fixed'.",
}
json.dump(m, open("MANIFEST.json", "w"), indent=1)
print("checks:", [c["property_id"] for c in checks], "n/a:", [n["property_id"] for n in na])
