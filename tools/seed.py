#!/usr/bin/env python3
"""Independent seeded defects (written by sub-agents that saw only a property's text).

  tools/seed.py verify <src_dir> <seed-id> <Cnn>   confirm in a scratch worktree: patch applies, 308 tests pass, demo fails with /
                                                    passes without; then keep it as /verif/seeded/<seed-id>/
  tools/seed.py run <seed-id>|all [tier] [--props C01,C02]   apply to /repo, run the property's check(s), restore; records seeded/RESULTS.json
  tools/seed.py table                               print the recorded results

/repo is always restored with `git checkout -- .`; nothing is committed there.
"""
import json
import os
import shutil
import subprocess
import sys
import time

VERIF = os.path.dirname(os.path.dirname(os.path.abspath(__file__)))
REPO = "/repo"
SEEDED = os.path.join(VERIF, "seeded")
PY = "/venv/bin/python"


def sh(cmd, **kw):
    return subprocess.run(cmd, capture_output=True, text=True, **kw)


def run_demo(wt, demo):
    env = dict(os.environ, PYTHONPATH=wt, PYTHONDONTWRITEBYTECODE="1")
    try:
        r = sh([PY, "-B", demo, wt], cwd=wt, env=env, timeout=600)
    except subprocess.TimeoutExpired:
        return 124, "timeout"
    return r.returncode, (r.stdout + r.stderr)[-600:]


def verify(src, sid, prop):
    wt = "/tmp/seedv_%s" % sid
    sh(["git", "-C", REPO, "worktree", "remove", "--force", wt])
    r = sh(["git", "-C", REPO, "worktree", "add", "--detach", wt, "HEAD"])
    if r.returncode:
        raise SystemExit("cannot create worktree: " + r.stderr)
    merged = None
    rec = {"seed": sid, "property": prop, "verified_at_repo_head": sh(["git", "-C", REPO, "rev-parse", "--short", "HEAD"]).stdout.strip()}
    try:
        patch = os.path.join(src, "patch.diff")
        demo_src = os.path.join(src, "demo.py")
        os.makedirs(os.path.join(wt, "_seeded"), exist_ok=True)
        demo = os.path.join(wt, "_seeded", "demo.py")
        shutil.copy(demo_src, demo)
        rc0, out0 = run_demo(wt, demo)
        rec["demo_without_patch"] = {"rc": rc0, "tail": out0[-200:]}
        r = sh(["git", "-C", wt, "apply", os.path.abspath(patch)])
        if r.returncode:
            # written against an earlier HEAD (a fix: commit has touched the same lines since): three-way merge, then keep the merged patch
            r = sh(["git", "-C", wt, "apply", "--3way", os.path.abspath(patch)])
            if r.returncode == 0:
                sh(["git", "-C", wt, "reset", "-q"])
                rec["rebased"] = "three-way merged onto %s" % rec["verified_at_repo_head"]
                merged = sh(["git", "-C", wt, "diff"]).stdout
        rec["patch_applies"] = r.returncode == 0
        if r.returncode:
            rec["apply_error"] = r.stderr[-300:]
            return rec
        env = dict(os.environ, PYTHONPATH=wt, PYTHONDONTWRITEBYTECODE="1")
        t = sh([PY, "-B", "-m", "pytest", "-q", "-p", "no:cacheprovider", "--timeout=900"], cwd=wt, env=env)
        tail = t.stdout.strip().splitlines()[-1] if t.stdout.strip() else t.stderr[-200:]
        rec["tests_with_patch"] = tail
        rc1, out1 = run_demo(wt, demo)
        rec["demo_with_patch"] = {"rc": rc1, "tail": out1[-400:]}
        rec["touches"] = sh(["git", "-C", wt, "diff", "--stat"]).stdout.strip().splitlines()[:-1]
        rec["ok"] = rc0 == 0 and rc1 != 0 and t.returncode == 0 and " passed" in tail and "failed" not in tail
    finally:
        sh(["git", "-C", REPO, "worktree", "remove", "--force", wt])
        shutil.rmtree(wt, ignore_errors=True)
    if rec.get("ok"):
        dst = os.path.join(SEEDED, sid)
        os.makedirs(dst, exist_ok=True)
        shutil.copy(os.path.join(src, "patch.diff"), os.path.join(dst, "patch.diff"))
        if merged:
            shutil.copy(os.path.join(src, "patch.diff"), os.path.join(dst, "patch.orig.diff"))      # as the author wrote it
            open(os.path.join(dst, "patch.diff"), "w").write(merged)                                # as verified on the current HEAD
        shutil.copy(os.path.join(src, "demo.py"), os.path.join(dst, "demo.py"))
        meta = {}
        try:
            meta = json.load(open(os.path.join(src, "meta.json")))
        except Exception as e:
            meta = {"note": "agent's meta.json unreadable: %r" % (e,)}
        out = {"property": prop, "breaks": meta.get("summary") or meta.get("breaks"), "needs_to_manifest": meta.get("needs") or meta.get("needs_to_manifest"), "kind": meta.get("kind"), "files": meta.get("files"),
               "author": "independent sub-agent given only the property text and a scratch worktree",
               "agent_ran": meta.get("ran") or meta.get("agent_ran"), "confirmed": rec}
        json.dump(out, open(os.path.join(dst, "meta.json"), "w"), indent=1)
    return rec


def clean():
    return sh(["git", "-C", REPO, "status", "--porcelain"]).stdout.strip() == ""


def run_one(sid, tier, props=None):
    d = os.path.join(SEEDED, sid)
    meta = json.load(open(os.path.join(d, "meta.json")))
    props = props or [meta["property"]]
    if not clean():
        raise SystemExit("/repo is not clean; refusing")
    res = {}
    try:
        r = sh(["git", "-C", REPO, "apply", os.path.join(d, "patch.diff")])
        if r.returncode:
            r = sh(["git", "-C", REPO, "apply", "--3way", os.path.join(d, "patch.diff")])      # written against an earlier HEAD
            sh(["git", "-C", REPO, "reset", "-q"])                                               # --3way stages the result: keep the index clean
        if r.returncode:
            return {p: {"rc": None, "out": "patch does not apply: " + r.stderr[-200:]} for p in props}
        for p in props:
            t0 = time.time()
            c = sh([os.path.join(VERIF, "check"), p, tier], cwd=VERIF)
            lines = [l for l in c.stdout.splitlines() if l.startswith(("VIOLATION", "INCONCLUSIVE", "OK", "  kind=", "KNOWN"))]
            kinds = [l.strip()[:260] for l in lines if l.startswith("  kind=")][:2]
            res[p] = {"rc": c.returncode, "wall": round(time.time() - t0, 1), "tier": tier, "first": kinds or [l[:200] for l in lines[:1]]}
    finally:
        sh(["git", "-C", REPO, "checkout", "--", "."])
        sh(["git", "-C", REPO, "clean", "-fdq", "--", "simple_ddl_parser"])
    return res


def try_one(sid, tier, props=None):
    """like run_one but on a scratch worktree handed to the check through VF_REPO: /repo and RESULTS.json are left alone (exploration only;
    the recorded results always come from run_one on /repo itself)"""
    d = os.path.join(SEEDED, sid)
    meta = json.load(open(os.path.join(d, "meta.json")))
    props = props or [meta["property"]]
    wt = "/tmp/seedtry_%d" % os.getpid()
    sh(["git", "-C", REPO, "worktree", "remove", "--force", wt])
    sh(["git", "-C", REPO, "worktree", "add", "--detach", wt, "HEAD"])
    res = {}
    try:
        r = sh(["git", "-C", wt, "apply", os.path.join(d, "patch.diff")])
        if r.returncode:
            # the patch was written against an earlier HEAD (before a later fix: commit touched the same lines): three-way merge it
            r = sh(["git", "-C", wt, "apply", "--3way", os.path.join(d, "patch.diff")])
        if r.returncode:
            return {p: {"rc": None, "first": ["patch does not apply: " + r.stderr[-200:]]} for p in props}
        for p in props:
            t0 = time.time()
            c = sh([os.path.join(VERIF, "check"), p, tier], cwd=VERIF, env=dict(os.environ, VF_REPO=wt))
            lines = [l for l in c.stdout.splitlines() if l.startswith(("VIOLATION", "INCONCLUSIVE", "OK", "  kind=", "KNOWN"))]
            kinds = [l.strip()[:260] for l in lines if l.startswith("  kind=")][:2]
            res[p] = {"rc": c.returncode, "wall": round(time.time() - t0, 1), "tier": tier, "first": kinds or [l[:200] for l in lines[:1]]}
    finally:
        sh(["git", "-C", REPO, "worktree", "remove", "--force", wt])
    return res


def reverify(sid):
    """does the seeded change still apply to, and still manifest on, the CURRENT /repo HEAD (later fix: commits may have moved or neutralised it)?"""
    d = os.path.join(SEEDED, sid)
    wt = "/tmp/seedrv_%d" % os.getpid()
    sh(["git", "-C", REPO, "worktree", "remove", "--force", wt])
    sh(["git", "-C", REPO, "worktree", "add", "--detach", wt, "HEAD"])
    head = sh(["git", "-C", REPO, "rev-parse", "--short", "HEAD"]).stdout.strip()
    rec = {"head": head}
    try:
        r = sh(["git", "-C", wt, "apply", os.path.join(d, "patch.diff")])
        how = "plain"
        if r.returncode:
            r = sh(["git", "-C", wt, "apply", "--3way", os.path.join(d, "patch.diff")])
            how = "3way"
        rec["applies"] = (how if r.returncode == 0 else False)
        if r.returncode == 0:
            os.makedirs(os.path.join(wt, "_seeded"), exist_ok=True)
            demo = os.path.join(wt, "_seeded", "demo.py")
            shutil.copy(os.path.join(d, "demo.py"), demo)
            rc, out = run_demo(wt, demo)
            rec["demo_rc_with_patch"] = rc
            rec["manifests"] = rc != 0
    finally:
        sh(["git", "-C", REPO, "worktree", "remove", "--force", wt])
        shutil.rmtree(wt, ignore_errors=True)
    meta = json.load(open(os.path.join(d, "meta.json")))
    meta["reverified"] = rec
    json.dump(meta, open(os.path.join(d, "meta.json"), "w"), indent=1)
    return rec


def load_results():
    p = os.path.join(SEEDED, "RESULTS.json")
    return json.load(open(p)) if os.path.exists(p) else {}


def main(argv):
    if not argv:
        print(__doc__)
        return 2
    if argv[0] == "verify":
        rec = verify(argv[1], argv[2], argv[3])
        print(json.dumps(rec, indent=1))
        return 0 if rec.get("ok") else 1
    if argv[0] == "run":
        tier = argv[2] if len(argv) > 2 and not argv[2].startswith("--") else "quick"
        props = None
        if "--props" in argv:
            props = argv[argv.index("--props") + 1].split(",")
        ids = sorted(d for d in os.listdir(SEEDED) if os.path.isdir(os.path.join(SEEDED, d))) if argv[1] == "all" else [argv[1]]
        results = load_results()
        for sid in ids:
            r = run_one(sid, tier, props)
            results.setdefault(sid, {}).update(r)
            for p, c in r.items():
                status = {1: "CAUGHT", 0: "MISSED", 2: "INCONCLUSIVE"}.get(c["rc"], "rc=%s" % c["rc"])
                print("%-14s %-4s %-12s %6.1fs  %s" % (sid, p, status, c.get("wall", 0), (c.get("first") or [""])[0][:170]))
            sys.stdout.flush()
            json.dump(results, open(os.path.join(SEEDED, "RESULTS.json"), "w"), indent=1, sort_keys=True)
        return 0
    if argv[0] == "reverify":
        ids = sorted(d for d in os.listdir(SEEDED) if os.path.isdir(os.path.join(SEEDED, d))) if argv[1] == "all" else argv[1:]
        for sid in ids:
            rec = reverify(sid)
            if not rec.get("manifests"):
                print("%-10s applies=%s demo_rc=%s  <- does not manifest on HEAD %s" % (sid, rec.get("applies"), rec.get("demo_rc_with_patch"), rec["head"]))
        return 0
    if argv[0] == "try":
        tier = argv[2] if len(argv) > 2 and not argv[2].startswith("--") else "quick"
        props = argv[argv.index("--props") + 1].split(",") if "--props" in argv else None
        for p, c in try_one(argv[1], tier, props).items():
            status = {1: "CAUGHT", 0: "MISSED", 2: "INCONCLUSIVE"}.get(c["rc"], "rc=%s" % c["rc"])
            print("%-14s %-4s %-12s %6.1fs  %s   (scratch worktree)" % (argv[1], p, status, c.get("wall", 0), (c.get("first") or [""])[0][:170]))
        return 0
    if argv[0] == "tryrec":
        # like try (scratch worktree handed to the check through VF_REPO, so several can run side by side) but the outcome is kept: one JSON file
        # per seed under <dir>, merged into RESULTS.json by `merge <dir>`
        out_dir, sid = argv[1], argv[2]
        tier = argv[3] if len(argv) > 3 else "quick"
        os.makedirs(out_dir, exist_ok=True)
        r = try_one(sid, tier)
        for p, c in r.items():
            c["where"] = "scratch worktree of /repo HEAD with the change applied (VF_REPO)"
            status = {1: "CAUGHT", 0: "MISSED", 2: "INCONCLUSIVE"}.get(c["rc"], "rc=%s" % c["rc"])
            print("%-14s %-4s %-12s %6.1fs  %s" % (sid, p, status, c.get("wall", 0), (c.get("first") or [""])[0][:150]))
        json.dump(r, open(os.path.join(out_dir, sid + ".json"), "w"))
        return 0
    if argv[0] == "merge":
        results = load_results()
        n = 0
        for f in sorted(os.listdir(argv[1])):
            if f.endswith(".json"):
                results.setdefault(f[:-5], {}).update(json.load(open(os.path.join(argv[1], f))))
                n += 1
        json.dump(results, open(os.path.join(SEEDED, "RESULTS.json"), "w"), indent=1, sort_keys=True)
        print("merged", n)
        return 0
    if argv[0] == "table":
        for sid, r in sorted(load_results().items()):
            for p, c in sorted(r.items()):
                print("%-14s %-4s %-12s %s" % (sid, p, {1: "CAUGHT", 0: "MISSED", 2: "INCONCLUSIVE"}.get(c["rc"], c["rc"]), (c.get("first") or [""])[0][:150]))
        return 0
    print(__doc__)
    return 2


if __name__ == "__main__":
    sys.exit(main(sys.argv[1:]))
