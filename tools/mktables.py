#!/usr/bin/env python3
"""Render the self-validation tables (own mutants, independent seeded defects) as markdown and splice them into DESIGN.md
between the markers <!-- TABLES:BEGIN --> and <!-- TABLES:END -->.   usage: python3 tools/mktables.py"""
import json
import os
import re

VERIF = os.path.dirname(os.path.dirname(os.path.abspath(__file__)))


def esc(s):
    return str(s or "").replace("|", "\\|").replace("\n", " ")


def first_kind(c):
    f = c.get("first") or ""
    if isinstance(f, list):
        f = f[0] if f else ""
    m = re.search(r"kind=(\S+)", f)
    return m.group(1) if m else ""


MISSED = []


def seeded_table():
    res_p = os.path.join(VERIF, "seeded", "RESULTS.json")
    res = json.load(open(res_p)) if os.path.exists(res_p) else {}
    rows = ["| seeded change | property | what it breaks / what it needs to manifest | check verdict (quick tier) | violation kind reported |", "|---|---|---|---|---|"]
    n = caught = 0
    for sid in sorted(d for d in os.listdir(os.path.join(VERIF, "seeded")) if os.path.isdir(os.path.join(VERIF, "seeded", d))):
        meta = json.load(open(os.path.join(VERIF, "seeded", sid, "meta.json")))
        r = res.get(sid, {})
        prop = meta["property"]
        c = r.get(prop)
        verdicts = []
        for p, cc in sorted(r.items()):
            v = {1: "**caught**", 0: "MISSED", 2: "inconclusive"}.get(cc.get("rc"), "not run")
            verdicts.append("%s: %s" % (p, v))
        if meta.get("status", "").startswith("no longer manifests"):
            rows.append("| `seeded/%s` | %s | %s | %s | — |" % (sid, prop, esc((meta.get("breaks") or "")[:200]), "*" + esc(meta["status"][:200]) + "* (not counted)"))
            continue
        n += 1
        if c and c.get("rc") == 1:
            caught += 1
        else:
            MISSED.append(sid)
        what = esc((meta.get("breaks") or "")[:230]) + " — *needs:* " + esc((meta.get("needs_to_manifest") or "")[:170])
        rows.append("| `seeded/%s` | %s | %s | %s | `%s` |" % (sid, prop, what, "; ".join(verdicts) or "not run", esc(first_kind(c or {}))))
    return "\n".join(rows), n, caught


def mutant_table():
    p = os.path.join(VERIF, "mutants", "RESULTS.json")
    res = json.load(open(p)) if os.path.exists(p) else {}
    specs = {s["id"]: s for s in json.load(open(os.path.join(VERIF, "mutants", "specs.json")))}
    rows = ["| own mutant | check(s) | change | suite with the change | verdict |", "|---|---|---|---|---|"]
    n = caught = valid = valid_caught = 0
    for mid in sorted(specs):
        s, r = specs[mid], res.get(mid)
        if not r:
            rows.append("| `%s` | %s | %s | not run | not run |" % (mid, ",".join(s["props"]), esc(s.get("note"))))
            continue
        tests = r.get("tests", "-")
        tshort = "308 pass" if tests.startswith("pass") else esc(tests.replace("FAIL ", "")[:40])
        vs = []
        for prop, c in sorted(r["checks"].items()):
            vs.append("%s: %s" % (prop, "**caught**" if c["rc"] == 1 else c["verdict"]))
            n += 1
            caught += c["rc"] == 1
            if tests.startswith("pass"):
                valid += 1
                valid_caught += c["rc"] == 1
        rows.append("| `%s` | %s | %s | %s | %s |" % (mid, ",".join(s["props"]), esc(s.get("note")), tshort, "; ".join(vs)))
    return "\n".join(rows), n, caught, valid, valid_caught


def main():
    st, sn, sc = seeded_table()
    mt, mn, mc, mv, mvc = mutant_table()
    text = ("\n### 7.2 Independent seeded changes (written by sub-agents from the property text alone)\n\n"
            "%d changes kept under `seeded/` (each: `patch.diff`, `demo.py`, `meta.json`); every one was confirmed by me in a scratch worktree "
            "(patch applies, 308 tests pass, the demonstration fails with it and passes without it) before it was kept.  "
            "**%d of %d are caught by the quick tier of the property's own check** on the current machinery "
            "(results in `seeded/RESULTS.json`: `tools/seed.py run` applies the change to `/repo` itself and restores it; `tools/seed.py tryrec` - entries with a `where` field - "
            "does the same on a scratch worktree of `/repo`'s HEAD handed to the check through `VF_REPO`, so that several can run side by side; entries of the last round were recorded that way, "
            "entries not re-run in the last round keep the verdict recorded on the earlier machinery).  Not caught by the property's own check: %s.  Of these C01-16, C05-14 are caught by C06 (which owns keyword-shaped "
            "names), C02-4 by C10, C10-15 by C19 (which owns the command line), C18-16 by C01 / C17; C05-16, C17-12 lie outside their property as stated "
            "(7.1) and are not caught.  Changes that no longer manifest on the repaired tree are listed without a verdict.\n\n%s\n"
            "\n### 7.3 Own mutants (`mutants/specs.py`)\n\n"
            "%d (mutant, check) pairs; %d caught.  %d pairs belong to mutants that keep the 308 tests green, of which %d are caught; the others "
            "are kept because they exercise the monitors, but the suite would catch them too.  Pairs marked *not caught* with a "
            "`control` / `equivalent` note are deliberate negative controls: the property still holds under them and the check must stay silent.\n\n%s\n"
            % (sn, sc, sn, ", ".join(MISSED) or "none", st, mn, mc, mv, mvc, mt))
    p = os.path.join(VERIF, "DESIGN.md")
    s = open(p).read()
    a, b = "<!-- TABLES:BEGIN -->", "<!-- TABLES:END -->"
    if a in s and b in s:
        s = s[:s.index(a) + len(a)] + "\n" + text + "\n" + s[s.index(b):]
        open(p, "w").write(s)
        print("DESIGN.md tables updated: seeded %d/%d caught, mutant pairs %d/%d caught" % (sc, sn, mc, mn))
    else:
        print(text)


if __name__ == "__main__":
    main()
