from simple_ddl_parser import DDLParser
import json, pprint
def q(style,n):
    return {"plain":n,"dq":'"%s"'%n,"bt":"`%s`"%n,"br":"[%s]"%n}[style]
for style in ["plain","dq","bt","br"]:
    S,T,A,B,C,CN,IX,RT,RC,SQ=[q(style,x) for x in ["MySch","MyTab","ColA","colB","Order","ck_Name","Idx_1","RefTab","RefCol","Seq1"]]
    ddl=f"""CREATE TABLE {S}.{T} (
  {A} int NOT NULL,
  {B} varchar(10) REFERENCES {S}.{RT} ({RC}),
  {C} date,
  CONSTRAINT {CN} PRIMARY KEY ({A}, {B}),
  CONSTRAINT {q(style,'uq_1')} UNIQUE ({B}, {C}),
  FOREIGN KEY ({C}) REFERENCES {RT} ({RC}) ON DELETE CASCADE
);
CREATE UNIQUE INDEX {IX} ON {S}.{T} ({A} ASC, {B} DESC);
ALTER TABLE {S}.{T} ADD CONSTRAINT {q(style,'fk_9')} FOREIGN KEY ({A}) REFERENCES {RT} ({RC});
CREATE SEQUENCE {S}.{SQ} START WITH 5;
"""
    for nn in (False,True):
        try:
            r=DDLParser(ddl,normalize_names=nn,silent=False).run()
            print("=====",style,nn); print(json.dumps(r,indent=None)[:3000])
        except Exception as e:
            print("=====",style,nn,"EXC",repr(e))
