from simple_ddl_parser import DDLParser
import random, sys, json, collections, copy, re
R=random.Random(int(sys.argv[1]) if len(sys.argv)>1 else 0)
def norm(n): return re.sub(r'[\[\]"`]',"",n).lower() if n else n   # my own normaliser (note: backtick?)
def spell(n):
    if n is None or not n.isalnum(): return n
    st=R.choice(["p","u","l","d","k"])
    return {"p":n,"u":n.upper(),"l":n.lower(),"d":'"%s"'%n,"k":"[%s]"%n}[st]
def gen():
    tabs=[]; used=set()
    for i in range(R.randint(1,4)):
        while True:
            sch=R.choice([None,"sa","sb"]); name=R.choice(["t","u","Orders"])
            if (sch,name) not in used: used.add((sch,name)); break
        cols=["a","b","c","d"][:R.randint(2,4)]
        tabs.append(dict(schema=sch,name=name,cols=[dict(name=c,type="int",size=None,default=None,unique=False) for c in cols],alter={},index=[]))
    stmts=[]
    for t in tabs:
        q=(t["schema"]+"." if t["schema"] else "")+t["name"]
        stmts.append("CREATE TABLE %s (%s);"%(q,", ".join(c["name"]+" int" for c in t["cols"])))
    model={ (norm(t["name"]),norm(t["schema"])):t for t in tabs}
    n=0
    for k in range(R.randint(1,8)):
        t=R.choice(tabs); ref=(spell(t["schema"])+"." if t["schema"] else "")+spell(t["name"])
        kind=R.choice(["add","drop","rename","modify","uniq1","uniq2","pk","check","default","fk","index","uindex"])
        names=[c["name"] for c in t["cols"]]
        if kind=="add":
            n+=1; nm="n%d"%n; stmts.append(f"ALTER TABLE {ref} ADD {nm} varchar(7);"); col=dict(name=nm,type="varchar",size=7,default=None,unique=False); t["cols"].append(col); t["alter"].setdefault("columns",[]).append(nm)
        elif kind=="drop" and len(names)>1:
            c=R.choice(names); stmts.append(f"ALTER TABLE {ref} DROP COLUMN {spell(c)};"); t["cols"]=[x for x in t["cols"] if x["name"]!=c]; t["alter"]["dropped_columns"]=c
        elif kind=="rename":
            c=R.choice(names); n+=1; nm="r%d"%n; stmts.append(f"ALTER TABLE {ref} RENAME COLUMN {spell(c)} TO {nm};")
            for x in t["cols"]:
                if x["name"]==c: x["name"]=nm
            t["alter"].setdefault("renamed_columns",[]).append(nm)
        elif kind=="modify":
            c=R.choice(names); sp=spell(c); stmts.append(f"ALTER TABLE {ref} MODIFY COLUMN {sp} bigint;")
            for x in t["cols"]:
                if x["name"]==c: x["type"]="bigint"; x["size"]=None; x["default"]=None; x["unique"]=False; x["name"]=sp
                
            t["alter"]["modified_columns"]=c
        elif kind=="uniq1":
            c=R.choice(names); stmts.append(f"ALTER TABLE {ref} ADD UNIQUE ({c});")
            for x in t["cols"]:
                if x["name"]==c: x["unique"]=True
            t["alter"].setdefault("uniques",[]).append([c])
        elif kind=="uniq2" and len(names)>1:
            cs=R.sample(names,2); stmts.append(f"ALTER TABLE {ref} ADD CONSTRAINT uq{k} UNIQUE ({', '.join(cs)});"); t["alter"].setdefault("uniques",[]).append(cs)
        elif kind=="pk":
            cs=R.sample(names,R.randint(1,2) if len(names)>1 else 1); stmts.append(f"ALTER TABLE {ref} ADD CONSTRAINT pk{k} PRIMARY KEY ({', '.join(cs)});"); t["alter"].setdefault("primary_keys",[]).append(cs)
        elif kind=="check":
            c=R.choice(names); stmts.append(f"ALTER TABLE {ref} ADD CONSTRAINT ck{k} CHECK ({c} > {k});"); t["alter"].setdefault("checks",[]).append(f"{c} > {k}")
        elif kind=="default":
            cs=R.sample(names,R.randint(1,min(2,len(names)))); stmts.append(f"ALTER TABLE {ref} ADD CONSTRAINT df{k} DEFAULT {k+10} FOR {', '.join(cs)};")
            for x in t["cols"]:
                if x["name"] in cs: x["default"]=str(k+10)
            t["alter"].setdefault("defaults",[]).append(cs)
        elif kind=="fk":
            cs=R.sample(names,R.randint(1,min(2,len(names)))); stmts.append(f"ALTER TABLE {ref} ADD CONSTRAINT fk{k} FOREIGN KEY ({', '.join(cs)}) REFERENCES zz.p ({', '.join('k%d'%i for i in range(len(cs)))});"); t["alter"].setdefault("columns",[]).extend(cs)
        elif kind in("index","uindex"):
            cs=R.sample(names,R.randint(1,min(2,len(names)))); dirs=[R.choice(["","ASC","DESC","desc"]) for _ in cs]
            stmts.append(f"CREATE {'UNIQUE ' if kind=='uindex' else ''}INDEX ix{k} ON {ref} ({', '.join((c+' '+d).strip() for c,d in zip(cs,dirs))});")
            t["index"].append(dict(index_name="ix%d"%k,unique=kind=="uindex",columns=cs,detailed_columns=[dict(name=c,order=(d.upper() or "ASC"),nulls="LAST") for c,d in zip(cs,dirs)]))
    return "\n".join(stmts)+"\n",tabs
bad=collections.Counter(); ex={}
for it in range(int(sys.argv[2]) if len(sys.argv)>2 else 500):
    ddl,tabs=gen()
    try: r=DDLParser(ddl,silent=False).run()
    except Exception as e: bad["exc"]+=1; ex.setdefault("exc",(ddl,repr(e)[:100])); continue
    if len(r)!=len(tabs): bad["len"]+=1; continue
    for e,t in zip(r,tabs):
        errs=[]
        if any("type" not in c for c in e["columns"]):
            bad["col-without-type"]+=1; ex.setdefault("col-without-type",(ddl,[c for c in e["columns"] if "type" not in c][:1])); continue
        got=[(c["name"],c["type"],c["size"],c["default"],c["unique"]) for c in e["columns"]]
        exp=[(c["name"],c["type"],c["size"],c["default"],c["unique"]) for c in t["cols"]]
        if len(got)!=len(exp): errs.append(("ncols",got,exp))
        else:
            for g,x in zip(got,exp):
                if x[0] is None: 
                    if g[1:]!=x[1:]: errs.append(("col",g,x))
                elif g!=x: errs.append(("col",g,x))
        a=e["alter"]
        if sorted(a)!=sorted(t["alter"]): errs.append(("alterkeys",sorted(a),sorted(t["alter"])))
        else:
            if "uniques" in a and [u["columns"] for u in a["uniques"]]!=t["alter"]["uniques"]: errs.append(("uniques",a["uniques"]))
            if "primary_keys" in a and [u["columns"] for u in a["primary_keys"]]!=t["alter"]["primary_keys"]: errs.append(("pks",a["primary_keys"]))
            if "checks" in a and [u["statement"] for u in a["checks"]]!=t["alter"]["checks"]: errs.append(("checks",a["checks"]))
            if "defaults" in a and [[c for c in u["columns"] if c!=","] for u in a["defaults"]]!=t["alter"]["defaults"]: errs.append(("defaults",a["defaults"]))
            if "columns" in a and len(a["columns"])!=len(t["alter"]["columns"]): errs.append(("acols",[c["name"] for c in a["columns"]],t["alter"]["columns"]))
            if "renamed_columns" in a and [c["to"] for c in a["renamed_columns"]]!=t["alter"]["renamed_columns"]: errs.append(("ren",))
        if e["index"]!=t["index"]: errs.append(("index",e["index"],t["index"]))
        if errs: bad["mismatch"]+=1; ex.setdefault(errs[0][0],(ddl,errs[:2]))
print(dict(bad))
for k,v in ex.items(): print(k,v)
