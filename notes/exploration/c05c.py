import sys, random, collections, json
exec(open('c05.py').read().split("bad=collections.Counter()")[0])
from dd import ddiff
def trial(mode, n=300):
    bad=0; exs=[]
    for it in range(n):
        k=R.sample(range(len(STMTS)),R.randint(1,3)); k.sort()
        if (4 in k or 5 in k or 3 in k) and 0 not in k: k=[0]+k
        base="\n".join(render(STMTS[i],{}) for i in k)+"\n"
        var="\n".join(render(STMTS[i],mode) for i in k)+"\n"
        if mode.get("crlf"): var=var.replace("\n","\r\n")
        rb,rv=run(base),run(var)
        if rb!=rv:
            import re
            if re.search(r"\n\s*'", var): bad+=0; continue   # known: newline before quote
            bad+=1
            if len(exs)<3: exs.append((var,ddiff(rb,rv)[:3] if not isinstance(rv,str) else rv))
    return bad,exs
for name,mode in [("case",{"case":1}),("ws",{"ws":1}),("ws+nl(LF)",{"ws":1,"nl":1,"nocr":1}),("crlf-only",{"crlf":1}),("all-LF",{"case":1,"ws":1,"nl":1,"nocr":1}),("all",{"case":1,"ws":1,"nl":1})]:
    b,exs=trial(mode); print(name,b)
    for e in exs: print("    ",repr(e[0])[:600],"\n        ",str(e[1])[:300])
