from simple_ddl_parser import DDLParser
import random, sys, collections, json
R=random.Random(int(sys.argv[1]) if len(sys.argv)>1 else 0)
CLEAN="abcXYZ019 _-.:;%$!?/#*&|@~+<>[]{}"
WORDS=["CREATE","table","not null","--","select","Primary Key","''","x","a;b"]
def lit():
    n=R.randint(0,14); s="".join(R.choice(CLEAN) for _ in range(n))
    if R.random()<.3: s+=R.choice(WORDS)
    if R.random()<.2: s=R.choice(WORDS)+" "+s
    return "'"+s+"'"
POS={
 "default": (lambda L:f"CREATE TABLE t (\n  a varchar(50) DEFAULT {L} NOT NULL,\n  b int\n);", lambda r:r[0]["columns"][0]["default"], "sql"),
 "colcomment": (lambda L:f"CREATE TABLE t (\n  a int COMMENT {L},\n  b int\n);", lambda r:r[0]["columns"][0]["comment"], "sql"),
 "tabcomment": (lambda L:f"CREATE TABLE t (\n  a int,\n  b int\n) COMMENT {L};", lambda r:r[0]["comment"], "hql"),
 "check": (lambda L:f"CREATE TABLE t (\n  a varchar(9) CHECK (a <> {L}),\n  b int\n);", lambda r:r[0]["columns"][0]["check"].split("<> ",1)[1], "sql"),
 "enumtype": (lambda L:f"CREATE TYPE ty AS ENUM ('x', {L}, 'z');", lambda r:r[0]["properties"]["values"][1], "sql"),
 "location": (lambda L:f"CREATE TABLE t (\n  a int\n) LOCATION {L};", lambda r:r[0]["location"], "hql"),
 "tblprop": (lambda L:f"CREATE TABLE t (\n  a int\n) TBLPROPERTIES ('k'={L});", lambda r:r[0]["tblproperties"]["'k'"], "hql"),
 "enumcol": (lambda L:f"CREATE TABLE t (\n  a ENUM('x', {L}) NOT NULL,\n  b int\n);", lambda r:r[0]["columns"][0]["values"][1], "mysql"),
}
bad=collections.Counter(); ex=collections.defaultdict(list)
for it in range(int(sys.argv[2]) if len(sys.argv)>2 else 300):
    L=lit()
    for name,(mk,get,mode) in POS.items():
        ddl=mk(L)
        try:
            r=DDLParser(ddl).run(output_mode=mode); got=get(r)
        except Exception as e:
            got="EXC "+repr(e)[:60]
        if got!=L:
            bad[name]+=1
            if len(ex[name])<6: ex[name].append((L,got))
print(dict(bad))
for k,v in ex.items(): print(k,v)
