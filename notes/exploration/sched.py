import threading, itertools, sys, time, json
from ply import lex, yacc
from simple_ddl_parser import DDLParser
from simple_ddl_parser import parser as P

class Sched:
    """baton scheduler: threads run one at a time between yield points; order given by a schedule (list of thread ids)"""
    def __init__(self, schedule, n):
        self.schedule=list(schedule); self.pos=0; self.cv=threading.Condition(); self.done=set(); self.n=n; self.trace=[]
        self.waiting=set()
    def _turn(self):
        # whose turn: next in schedule that is not done; if schedule exhausted: lowest not-done
        while self.pos<len(self.schedule) and self.schedule[self.pos] in self.done: self.pos+=1
        if self.pos<len(self.schedule): return self.schedule[self.pos]
        alive=[i for i in range(self.n) if i not in self.done]
        return alive[0] if alive else None
    def yield_point(self, tid, tag):
        with self.cv:
            # finishing my current slice: advance
            if self.pos<len(self.schedule) and self.schedule[self.pos]==tid and self.started.get(tid): self.pos+=1
            self.started[tid]=True
            self.cv.notify_all()
            while self._turn()!=tid: 
                if not self.cv.wait(timeout=10): raise RuntimeError("sched timeout")
            self.trace.append((tid,tag))
    started={}
    def finish(self, tid):
        with self.cv:
            if self.pos<len(self.schedule) and self.schedule[self.pos]==tid: self.pos+=1
            self.done.add(tid); self.cv.notify_all()

tl=threading.local()
CUR=[None]
def yp(tag):
    s=CUR[0]
    if s is not None and getattr(tl,"tid",None) is not None: s.yield_point(tl.tid, tag)
o_lex,o_yacc,o_ps=lex.lex,yacc.yacc,P.Parser.parse_statement
def w_lex(*a,**k):
    r=o_lex(*a,**k); yp("after_lex"); return r
def w_yacc(*a,**k):
    r=o_yacc(*a,**k); yp("after_yacc"); return r
def w_ps(self):
    yp("before_stmt"); return o_ps(self)
P.lex.lex=w_lex; P.yacc.yacc=w_yacc; P.Parser.parse_statement=w_ps

DDLS=['CREATE TABLE "A1" ("x" int);\nCREATE TABLE "A2" ("y" int) garbage (;\n', 'CREATE TABLE "B1" ("p" int NOT NULL);\nCREATE SEQUENCE "B2" START 3;\n']
FLAGS=[dict(normalize_names=True,silent=True),dict(normalize_names=False,silent=True)]
solo=[DDLParser(d,**f).run() for d,f in zip(DDLS,FLAGS)]
def worker(tid,res):
    tl.tid=tid
    try:
        yp("start")
        res[tid]=DDLParser(DDLS[tid],**FLAGS[tid]).run()
    except Exception as e: res[tid]="EXC "+repr(e)[:80]
    finally: CUR[0].finish(tid)
# each thread has 5 slices (start, after_lex, after_yacc, stmt1, stmt2) -> schedule = sequence of 10 thread ids w/ 5 each
bad=0; n=0; t0=time.time(); traces=set()
for combo in itertools.combinations(range(10),5):
    schedule=[1]*10
    for c in combo: schedule[c]=0
    s=Sched(schedule,2); s.started={}; CUR[0]=s; res={}
    ts=[threading.Thread(target=worker,args=(i,res)) for i in range(2)]
    [t.start() for t in ts]; [t.join(20) for t in ts]
    n+=1; traces.add(tuple(s.trace))
    if res.get(0)!=solo[0] or res.get(1)!=solo[1]:
        bad+=1
        if bad<3: print("BAD schedule",schedule, [r if isinstance(r,str) else [e.get("table_name") or e.get("sequence_name") for e in r] for r in (res.get(0),res.get(1))])
print("schedules",n,"distinct traces",len(traces),"bad",bad,"time",round(time.time()-t0,2))
