from simple_ddl_parser import DDLParser
from simple_ddl_parser import tokens as tok
kws = sorted(set(tok.tokens) - {"ID","DOT","STRING_BASE","DQ_STRING","LP","RP","LT","RT","COMMAT","EQ","COMMA"})
excl = set("LIKE CONSTRAINT FOREIGN PRIMARY INDEX UNIQUE CHECK WITH CLUSTER BY KEY COLLATE AUTOINCREMENT".split())
print(len(kws))
bad=[]
for kw in kws:
    for case in (kw, kw.lower(), kw.capitalize()):
        for pos in (0,1,2):
            cols=["c0 int","c1 varchar(5) not null","c2 date"]
            cols[pos]=f"{case} int not null"
            for layout in ("\n  ", " "):
                ddl="CREATE TABLE s.t ("+layout+(","+layout).join(cols)+layout.rstrip(" ")+");"
                try:
                    r=DDLParser(ddl).run()
                except Exception as e:
                    bad.append((kw,case,pos,layout=="\n  ","EXC "+repr(e)[:80])); continue
                ok = len(r)==1 and [c["name"] for c in r[0].get("columns",[])]==[c.split()[0] for c in cols] and r[0]["columns"][pos]["type"]=="int" and r[0]["columns"][pos]["nullable"] is False
                if not ok:
                    bad.append((kw,case,pos,layout=="\n  ", [ (c["name"],c["type"]) for c in r[0].get("columns",[])] if r else r))
import collections
by=collections.defaultdict(list)
for b in bad: by[b[0]].append(b[1:])
for k,v in by.items():
    print(k, "EXCLUDED" if k in excl else "", len(v), v[:3])
print("excluded but fine:", excl-set(by))
