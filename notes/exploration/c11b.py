from simple_ddl_parser import DDLParser
from dd import ddiff
import random, sys, json, collections, itertools
R=random.Random(int(sys.argv[1]) if len(sys.argv)>1 else 0)
# clause -> (text, owned keys)
CAT={
 "hql":[("PARTITIONED BY (dt string, hr int)",["partitioned_by"]),("CLUSTERED BY (a) INTO 4 BUCKETS",["clustered_by","into_buckets"]),("ROW FORMAT DELIMITED",["row_format"]),("FIELDS TERMINATED BY '|'",["fields_terminated_by"]),("STORED AS PARQUET",["stored_as"]),("LOCATION 's3://b/p'",["location"]),("TBLPROPERTIES ('k1'='v1', 'k2'='v2')",["tblproperties"]),("COMMENT 'tc'",["comment"])],
 "mysql":[("ENGINE=InnoDB",["engine"]),("DEFAULT CHARSET=utf8",["default_charset"]),("AUTO_INCREMENT=5",["auto_increment"])],
 "oracle":[("TABLESPACE users",["tablespace"]),("STORAGE (INITIAL 64K NEXT 1M)",["storage"]),("ORGANIZATION INDEX",["organization_index"])],
 "redshift":[("DISTSTYLE KEY",["diststyle"]),("DISTKEY (a)",["distkey"])],
 "snowflake":[("CLUSTER BY (a, b)",["cluster_by"]),("COMMENT = 'sf'",["comment"]),("DATA_RETENTION_TIME_IN_DAYS = 3",["data_retention_time_in_days"]),("CHANGE_TRACKING = TRUE",["change_tracking"]),("WITH TAG (dept = 'x')",["with_tag"]),("MAX_DATA_EXTENSION_TIME_IN_DAYS = 7",["max_data_extension_time_in_days"])],
 "mssql":[("ON [PRIMARY]",["on"]),("TEXTIMAGE_ON [PRIMARY]",["textimage_on"]),("WITH (DATA_COMPRESSION = PAGE)",["with"])],
 "bigquery":[("PARTITION BY DATE(b)",["partition_by"]),("CLUSTER BY a, b",["cluster_by"]),("OPTIONS (description='d', labels='l')",["options"])],
 "postgres":[("INHERITS (s.parent)",["inherits"]),("PARTITION BY RANGE (a)",["partition_by"])],
 "spark_sql":[("USING parquet",["using"])],
 "ibm_db2":[("IN ts1",["tablespace"]),("INDEX IN ts2",["index_in"]),("ORGANIZE BY ROW",["organize_by"])],
}
LAST=["b varchar(10)","b varchar(10) NOT NULL","b varchar(10) DEFAULT 'x'","b int PRIMARY KEY","b decimal(10,2) UNIQUE","b int REFERENCES p (k)","b date,\n  PRIMARY KEY (a)","b int,\n  CONSTRAINT u UNIQUE (a, b)"]
def run(s,mode):
    try: return DDLParser(s).run(output_mode=mode)
    except Exception as e: return "EXC "+repr(e)[:80]
bad=collections.Counter(); ex={}
for dialect,cls in CAT.items():
  for it in range(int(sys.argv[2]) if len(sys.argv)>2 else 60):
    last=R.choice(LAST); k=R.randint(1,min(3,len(cls))); sel=R.sample(cls,k)
    if dialect in("hql","bigquery","mssql","ibm_db2","oracle","postgres"): sel=[c for c in cls if c in sel]  # keep catalogue order
    base=f"CREATE TABLE s.t (\n  a int,\n  {last}\n)"
    full=base+"\n"+"\n".join(c[0] for c in sel)+";"
    owned=set(k for c in sel for k in c[1])
    for mode in (dialect,"sql"):
        b=run(base+";",mode); r=run(full,mode)
        if isinstance(r,str) or not r or isinstance(b,str): bad[(dialect,mode,"noresult")]+=1; ex.setdefault((dialect,mode,"noresult"),(full,r)); continue
        d=ddiff(b[0],r[0])
        stray=[x for x in d if x[0].split("/")[1].split("[")[0].split("#")[0] not in owned|{"table_properties"}]
        found=set()
        for key in owned:
            if key in r[0] and r[0][key]!=b[0].get(key): found.add(key)
            if key in (r[0].get("table_properties") or {}): found.add(key)
        tp_extra=set((r[0].get("table_properties") or {}))-owned
        if stray or found!=owned or tp_extra:
            bad[(dialect,mode,"diff")]+=1; ex.setdefault((dialect,mode,"diff"),(full,stray[:3],sorted(owned-found),sorted(tp_extra)))
print(dict(bad))
for k,v in ex.items(): print(k,"\n   ",repr(v[0])[:300],"\n   ",v[1:])
