from simple_ddl_parser import DDLParser
import json, collections
SCRIPTS=[["CREATE TABLE s.t (","  a int NOT NULL,","  b varchar(10) DEFAULT 'x',","  c date","  );","CREATE SEQUENCE s.q START WITH 3;"],
 ["CREATE TABLE h (","  a int,","  b string",")","PARTITIONED BY (c int)","STORED AS PARQUET;","CREATE TYPE ty AS ENUM ('a', 'b');"]]
TEXTS=["a /* b","a */ b","a # b","a -- b","a /* b */ c","-- a","# a","## a","a--b","a#b"]
def run(lines):
    try: return DDLParser("\n".join(lines)+"\n").run()
    except Exception as e: return "EXC "+repr(e)[:60]
res=collections.defaultdict(list)
for si,lines in enumerate(SCRIPTS):
    base=run(lines)
    for ti,t in enumerate(TEXTS):
        styles={"dash":["-- "+t],"idash":["   -- "+t],"hash":["# "+t],"block1":["/* "+t+" */"],"iblock1":["  /* "+t+" */"],"blockml":["/* "+t,"   more "+t,"*/"],"blockml2":["/* "+t,"   more "+t+" */"]}
        for sn,c in styles.items():
            for pos in range(len(lines)+1):
                r=run(lines[:pos]+c+lines[pos:])
                ents=r if isinstance(r,str) else [e for e in r if "comments" not in e]
                if ents!=base: res[sn].append((si,ti,pos))
        for sn,tail in {"tdash":" -- "+t,"tblock":" /* "+t+" */"}.items():
            for pos in range(len(lines)):
                l2=list(lines); l2[pos]+=tail; r=run(l2)
                ents=r if isinstance(r,str) else [e for e in r if "comments" not in e]
                if ents!=base: res[sn].append((si,ti,pos, r if isinstance(r,str) else ""))
for k,v in res.items():
    print(k,len(v),"texts:",sorted(set(x[1] for x in v)),"positions:",sorted(set((x[0],x[2]) for x in v))[:20], [x[3] for x in v if len(x)>3 and x[3]][:2])
