import collections, copy, json
from simple_ddl_parser import DDLParser
from simple_ddl_parser import parser as P
from simple_ddl_parser.output import core as C
FLAGS=["is_table","sequence","last_token","columns_def","after_columns","check","last_par","lp_open","is_alter","is_like","lt_open"]
EV=collections.Counter(); toks=[]; prods=collections.Counter(); leaks=[]
orig_ps=P.Parser.parse_statement
def ps(self):
    EV["parse_statement"]+=1
    lx=self.lexer
    bad={f:getattr(lx,f,None) for f in FLAGS if getattr(lx,f,None) not in (False,0)}
    if bad: leaks.append((self.statement[:40],bad))
    if not getattr(lx,"_vf_tok",None):
        ot=lx.token
        def tok():
            t=ot()
            if t is not None: toks.append((t.type,t.value, lx.lt_open))
            return t
        lx.token=tok; lx._vf_tok=True
    if not getattr(self.yacc,"_vf_prod",None):
        for pr in self.yacc.productions:
            if pr.callable is not None:
                def mk(c,name):
                    def w(p):
                        prods[name]+=1; return c(p)
                    return w
                pr.callable=mk(pr.callable,pr.str)
        self.yacc._vf_prod=True
    toks.append(("<STMT>",self.statement,0))
    return orig_ps(self)
P.Parser.parse_statement=ps
# registry monitor
orig_alter=C.Output.add_alter_to_table
def aat(self, statement):
    before={k:json.dumps(v.__dict__,default=str,sort_keys=True) for k,v in self.tables_dict.items()}
    r=orig_alter(self, statement)
    after={k:json.dumps(v.__dict__,default=str,sort_keys=True) for k,v in self.tables_dict.items()}
    changed=[k for k in after if before.get(k)!=after[k]]
    EV["alter"]+=1; EV["alter_changed_%d"%len(changed)]+=1
    print("   alter", statement.get("alter_table_name"), statement.get("schema"), "changed:", changed)
    return r
C.Output.add_alter_to_table=aat
ddl='''CREATE TABLE "Sa"."T" (a int, b MAP<STRING, ARRAY<INT>>, c varchar(5) CHECK (c <> 'x'));
CREATE TABLE sb.t (a int, b int);
CREATE TABLE t2 LIKE sb.t;
ALTER TABLE sa.t ADD CONSTRAINT fk FOREIGN KEY (a) REFERENCES sb.t (a);
ALTER TABLE SB.T DROP COLUMN B;
CREATE SEQUENCE s.q START WITH 3 CACHE;
CREATE TABLE t3 (increment int, x int) STORED AS PARQUET;
'''
r=DDLParser(ddl).run(output_mode="hql")
print(dict(EV)); print("leaks",leaks)
print("tokens",len(toks), [t for t in toks if t[0]!="<STMT>"][:14])
print("min lt_open",min(t[2] for t in toks), "distinct prods",len(prods), prods.most_common(5))
print([ (e.get("table_name"),[c["name"] for c in e.get("columns",[])]) for e in r if "table_name" in e])
