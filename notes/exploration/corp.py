import json, collections, copy, sys
from simple_ddl_parser import DDLParser
from simple_ddl_parser.output.dialects import dialect_by_name
from dd import ddiff
C=json.load(open('corpus.json'))
seen=set(); U=[]
for r in C:
    k=(r['ddl'],json.dumps(r['init_kw'],sort_keys=True))
    if k in seen: continue
    seen.add(k); U.append(r)
def run(ddl, ikw=None, **rkw):
    ikw=dict(ikw or {}); ikw.pop("debug",None)
    try: return DDLParser(ddl, **ikw).run(**rkw)
    except Exception as e: return "EXC "+type(e).__name__+" "+str(e)[:80]
stats=collections.Counter(); ex=collections.defaultdict(list)
for r in U:
    ddl=r['ddl']; ikw={k:v for k,v in r['init_kw'].items() if k in("normalize_names",)}
    base=run(ddl,ikw)
    if isinstance(base,str): stats["base_exc"]+=1; ex["base_exc"].append((ddl[:80],base)); continue
    loud=run(ddl,dict(ikw,silent=False))
    if isinstance(loud,str): stats["loud_raises"]+=1; ex["loud_raises"].append((ddl[:100],loud))
    elif loud!=base: stats["loud_differs"]+=1
    # json
    try:
        js=json.dumps(base); 
        if DDLParser(ddl,**ikw).run(json_dump=True)!=js: stats["json_dump_neq"]+=1
    except Exception as e: stats["json_fail"]+=1; ex["json_fail"].append((ddl[:80],repr(e)))
    # rerun
    p=DDLParser(ddl,**ikw); a=p.run(); s=copy.deepcopy(a); b=p.run(output_mode="hql"); c=p.run()
    if a!=s: stats["aliased"]+=1; ex["aliased"].append((ddl[:80],ddiff(s,a)[:2]))
    if c!=s: stats["rerun_diff"]+=1; ex["rerun_diff"].append((ddl[:80],ddiff(s,c)[:2]))
    # group by type
    g=run(ddl,ikw,group_by_type=True)
    if isinstance(g,str): stats["group_exc"]+=1
    else:
        flat=[e for e in base if "comments" not in e]
        regroup=[x for k,v in g.items() if k!="comments" for x in v]
        if sorted(map(json.dumps,flat))!=sorted(map(json.dumps,regroup)): stats["group_loss"]+=1; ex["group_loss"].append((ddl[:80],len(flat),len(regroup)))
    for m in dialect_by_name:
        rm=run(ddl,ikw,output_mode=m)
        if isinstance(rm,str): stats["mode_exc:"+m]+=1; ex["mode_exc"].append((m,ddl[:80],rm))
        elif len(rm)!=len(base): stats["mode_len:"+m]+=1
print(len(U), dict(stats))
for k,v in ex.items():
    print("==",k,len(v))
    for x in v[:8]: print("   ",x)
