import time, sys, os, importlib
t0=time.time()
from simple_ddl_parser import DDLParser
import simple_ddl_parser
pt=os.path.join(os.path.dirname(simple_ddl_parser.__file__),"parsetab.py")
print("parsetab exists", os.path.exists(pt), "mtime", os.path.exists(pt) and os.path.getmtime(pt))
t0=time.time(); p=DDLParser("CREATE TABLE t (a int);"); print("construct", round(time.time()-t0,2)); print(p.run()[0]["table_name"])
print("parsetab exists after", os.path.exists(pt), os.path.getmtime(pt))
t0=time.time(); p=DDLParser("CREATE TABLE t (a int);"); print("construct2", round(time.time()-t0,3))
from ply import yacc
print(type(p.yacc), len(p.yacc.action), len(p.yacc.goto), len(p.yacc.productions))
