import json, collections, random, sys
exec(open('c03b.py').read().split("def run(s):")[0])
from simple_ddl_parser.output.dialects import dialect_by_name
from dd import ddiff
R=random.Random(1)
COMMON=["table_name","schema","primary_key","checks","index","alter","partitioned_by","constraints","partition_by"]
COLC=["name","type","size","references","unique","nullable","default","check"]
def ren(o):
    if isinstance(o,dict): return {("schema" if k=="dataset" else k):ren(v) for k,v in o.items()}
    if isinstance(o,list): return [ren(x) for x in o]
    return o
def run(s,**kw):
    try: return DDLParser(s).run(**kw)
    except Exception as e: return "EXC "+type(e).__name__+" "+str(e)[:60]
bad=collections.Counter(); ex={}
sup=[k for k in K if not k[0].startswith("unsup")]
for it in range(150):
    sel=R.sample(sup,R.randint(1,5)); script="\n".join(t.replace("{i}",str(i)) for i,(n,t) in enumerate(sel))+"\n"
    base=run(script)
    if isinstance(base,str): bad["base_exc"]+=1; continue
    g=run(script,group_by_type=True)
    for m in dialect_by_name:
        r=run(script,output_mode=m)
        if isinstance(r,str): bad[("exc",m)]+=1; ex.setdefault(("exc",m),(script[:300],r)); continue
        try: json.dumps(r)
        except Exception as e: bad[("json",m)]+=1
        if len(r)!=len(base): bad[("len",m)]+=1; continue
        for e,b in zip(r,base):
            e=ren(e)
            if "table_name" in b:
                for k in COMMON:
                    ev,bv=e.get(k),b.get(k)
                    if k=="index" and m=="mssql": ev=[{kk:vv for kk,vv in i.items() if kk!="clustered"} for i in ev]
                    if ev!=bv: bad[("common",m,k)]+=1; ex.setdefault(("common",m,k),(script[:300],ev,bv))
                for c,cb in zip(e["columns"],b["columns"]):
                    for ck in COLC:
                        if c.get(ck)!=cb.get(ck): bad[("col",m,ck)]+=1; ex.setdefault(("col",m,ck),(script[:300],c.get(ck),cb.get(ck)))
            elif ren(e)!=ren(b): bad[("ent",m)]+=1; ex.setdefault(("ent",m),(e,b))
print(dict(bad))
for k,v in ex.items(): print(k,v)
