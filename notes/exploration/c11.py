from simple_ddl_parser import DDLParser
from dd import ddiff
import json
BASE="CREATE TABLE s.t (\n  a int NOT NULL,\n  b varchar(10) DEFAULT 'x',\n  PRIMARY KEY (a)\n)"
CL=[("hql","STORED AS PARQUET"),("hql","LOCATION 's3://b/p'"),("hql","ROW FORMAT DELIMITED"),("hql","ROW FORMAT SERDE 'org.x.Serde'"),("hql","ROW FORMAT DELIMITED FIELDS TERMINATED BY ','"),("hql","FIELDS TERMINATED BY '|'"),("hql","TBLPROPERTIES ('k1'='v1', 'k2'='v2')"),("hql","PARTITIONED BY (dt string, hr int)"),("hql","CLUSTERED BY (a) INTO 4 BUCKETS"),("hql","COMMENT 'tbl comment'"),("hql","STORED AS INPUTFORMAT 'a.b.In' OUTPUTFORMAT 'a.b.Out'"),("hql","LINES TERMINATED BY '\\n'"),("hql","COLLECTION ITEMS TERMINATED BY '\\002'"),("hql","MAP KEYS TERMINATED BY '\\003'"),("hql","SKEWED BY (a) ON (1, 2)"),
 ("mysql","ENGINE=InnoDB"),("mysql","DEFAULT CHARSET=utf8"),("mysql","AUTO_INCREMENT=5"),("mysql","ENGINE = MyISAM"),
 ("oracle","TABLESPACE users"),("oracle","STORAGE (INITIAL 64K NEXT 1M)"),("oracle","ORGANIZATION INDEX"),
 ("redshift","DISTSTYLE KEY"),("redshift","DISTKEY (a)"),("redshift","SORTKEY (a, b)"),("redshift","COMPOUND SORTKEY (a)"),("redshift","DISTSTYLE ALL"),
 ("snowflake","CLUSTER BY (a, b)"),("snowflake","COMMENT = 'sf comment'"),("snowflake","DATA_RETENTION_TIME_IN_DAYS = 3"),("snowflake","MAX_DATA_EXTENSION_TIME_IN_DAYS = 7"),("snowflake","CHANGE_TRACKING = TRUE"),("snowflake","WITH TAG (dept = 'x')"),("snowflake","STAGE_FILE_FORMAT = (TYPE = CSV)"),
 ("mssql","ON [PRIMARY]"),("mssql","TEXTIMAGE_ON [PRIMARY]"),("mssql","WITH (DATA_COMPRESSION = PAGE)"),("mssql","ON fg1"),
 ("bigquery","OPTIONS (description='d', labels='l')"),("bigquery","PARTITION BY DATE(b)"),("bigquery","CLUSTER BY a, b"),("bigquery","PARTITION BY a"),
 ("postgres","INHERITS (s.parent)"),("postgres","PARTITION BY RANGE (a)"),("postgres","PARTITION BY HASH (a, b)"),
 ("spark_sql","USING parquet"),("ibm_db2","IN ts1"),("ibm_db2","INDEX IN ts2"),("ibm_db2","ORGANIZE BY ROW"),("athena","ESCAPED BY '\\\\'")]
def run(s,mode):
    try: return DDLParser(s).run(output_mode=mode)
    except Exception as e: return "EXC "+repr(e)[:80]
import sys
for mode,c in CL:
    out=[]
    for m in (mode,"sql"):
        b=run(BASE+";",m); r=run(BASE+"\n"+c+";",m)
        if isinstance(r,str) or not r: out.append((m,r)); continue
        d=ddiff(b[0],r[0]); out.append((m,[(p,str(y)[:70]) for p,x,y in d]))
    print(c,"\n    ",out[0],"\n    ",out[1])
