import json, os, atexit
from simple_ddl_parser import parser as _p
REC=[]
_orig_init=_p.Parser.__init__
_orig_run=_p.Parser.run
def init(self, content, *a, **kw):
    self._h_content=content; self._h_kw=dict(kw); self._h_a=list(a)
    return _orig_init(self, content, *a, **kw)
def run(self, **kw):
    rec={"ddl":self._h_content,"init_args":self._h_a,"init_kw":{k:(v if isinstance(v,(bool,int,str,type(None))) else repr(v)) for k,v in self._h_kw.items()},"run_kw":kw}
    try:
        r=_orig_run(self, **kw); rec["ok"]=True
        return r
    except Exception as e:
        rec["ok"]=False; rec["exc"]=repr(e)[:200]; raise
    finally:
        REC.append(rec)
_p.Parser.__init__=init; _p.Parser.run=run
def pytest_sessionfinish(session, exitstatus):
    json.dump(REC, open(os.environ.get("HARVEST_OUT","/tmp/ex/corpus.json"),"w"))
