from simple_ddl_parser import DDLParser
import json, sys, itertools, collections
K=[
 ("tbl","CREATE TABLE s.t{i} (\n  a int NOT NULL,\n  b varchar(10) DEFAULT 'x'\n);"),
 ("tbl1","CREATE TABLE t{i} (a int PRIMARY KEY, b decimal(10,2), CONSTRAINT u{i} UNIQUE (a, b));"),
 ("like","CREATE TABLE t{i} LIKE s.other;"),
 ("like2","CREATE TABLE t{i} (LIKE s.other);"),
 ("check","CREATE TABLE t{i} (a int CHECK (a > 0), b int, CHECK (b < 5));"),
 ("ccheck","CREATE TABLE t{i} (a int, CONSTRAINT ck{i} CHECK (a IN (1, 2)));"),
 ("angle","CREATE TABLE t{i} (a MAP<STRING, ARRAY<INT>>, b STRUCT<x:INT, y:STRING>);"),
 ("seq","CREATE SEQUENCE s.q{i} INCREMENT BY 2 START WITH 5 NO MAXVALUE CACHE;"),
 ("seqml","CREATE SEQUENCE q{i}\n  START 1\n  INCREMENT 1;"),
 ("type","CREATE TYPE s.ty{i} AS ENUM ('a', 'b');"),
 ("typeobj","CREATE TYPE ty{i} AS OBJECT (x int, y varchar(5));"),
 ("typetab","CREATE TYPE ty{i} AS TABLE (x int NOT NULL);"),
 ("domain","CREATE DOMAIN d{i} AS varchar(10);"),
 ("schema","CREATE SCHEMA sc{i};"),
 ("schemaauth","CREATE SCHEMA IF NOT EXISTS sc{i} AUTHORIZATION joe;"),
 ("db","CREATE DATABASE db{i};"),
 ("tspace","CREATE BIGFILE TABLESPACE ts{i};"),
 ("drop","DROP TABLE old{i};"),
 ("hql","CREATE EXTERNAL TABLE h{i} (a int, b string) PARTITIONED BY (c int) STORED AS PARQUET LOCATION 's3://x/y';"),
 ("mysql","CREATE TABLE m{i} (a int AUTO_INCREMENT, b int) ENGINE=InnoDB DEFAULT CHARSET=utf8;"),
 ("ora","CREATE TABLE o{i} (a NUMBER(*,0), b VARCHAR2(30 CHAR)) TABLESPACE users STORAGE (INITIAL 64K);"),
 ("sf","CREATE OR REPLACE TRANSIENT TABLE sf{i} (a int) CLUSTER BY (a) COMMENT = 'c';"),
 ("mssql","CREATE TABLE [dbo].[ms{i}] ([a] [int] IDENTITY(1,1) NOT NULL, [b] [varchar](max)) ON [PRIMARY];"),
 ("bq","CREATE TABLE p.d.bq{i} (a INT64 OPTIONS(description='x')) PARTITION BY a OPTIONS (description='d');"),
 ("set","SET search_path = public;"),
 ("altergrp","CREATE TABLE ag{i} (a int, b int);\nALTER TABLE ag{i} ADD CONSTRAINT fk{i} FOREIGN KEY (a) REFERENCES p (k);\nCREATE INDEX ix{i} ON ag{i} (b DESC);\nALTER TABLE ag{i} DROP COLUMN b;"),
 ("unsup_sel","SELECT a, b FROM t WHERE x = 1;"),
 ("unsup_view","CREATE VIEW v{i} AS SELECT a FROM t;"),
 ("unsup_ins","INSERT INTO t (a, b) VALUES (1, 'x');"),
 ("unsup_grant","GRANT SELECT ON t TO joe;"),
 ("unsup_fn","CREATE FUNCTION f{i}() RETURNS int AS $$ SELECT 1 $$ LANGUAGE sql;"),
]
def run(s):
    try: return DDLParser(s).run()
    except Exception as e: return "EXC "+repr(e)[:80]
solo={}
for name,t in K:
    solo[name]=[run(t.replace("{i}",str(i))+"\n") for i in (0,1)]
    if isinstance(solo[name][0],str) or (name.startswith("unsup") and solo[name][0]!=[]): print("SOLO",name,solo[name][0])
bad=collections.Counter(); ex={}
for (n1,t1),(n2,t2) in itertools.product(K,K):
    script=t1.replace("{i}","0")+"\n"+t2.replace("{i}","1")+"\n"
    whole=run(script); exp=[]
    for r in (solo[n1][0],solo[n2][1]): exp.extend(r if isinstance(r,list) else [r])
    if whole!=exp:
        bad[(n1,n2)]+=1; ex[(n1,n2)]=(json.dumps(whole)[:200],json.dumps(exp)[:200])
print(len(K)**2,"pairs; bad:",len(bad))
for k,v in list(ex.items())[:12]: print(k,"\n   W:",v[0],"\n   E:",v[1])
print(collections.Counter(k[0] for k in bad).most_common(), collections.Counter(k[1] for k in bad).most_common())
