from simple_ddl_parser import DDLParser
import random, json, sys, collections
R=random.Random(int(sys.argv[1]) if len(sys.argv)>1 else 0)
SUP=[
 "CREATE TABLE s.t{i} (\n  a int NOT NULL,\n  b varchar(10) DEFAULT 'x'\n);",
 "CREATE TABLE t{i} (a int PRIMARY KEY, b decimal(10,2), CONSTRAINT u{i} UNIQUE (a, b));",
 "CREATE TABLE IF NOT EXISTS t{i} (\n  a int,\n  b int,\n  PRIMARY KEY (a)\n) ;",
 "CREATE SEQUENCE s.q{i} INCREMENT BY 2 START WITH 5 NO MAXVALUE CACHE;",
 "CREATE SEQUENCE q{i}\n  START 1\n  INCREMENT 1;",
 "CREATE TYPE s.ty{i} AS ENUM ('a', 'b');",
 "CREATE DOMAIN d{i} AS varchar(10);",
 "CREATE SCHEMA sc{i};",
 "CREATE SCHEMA IF NOT EXISTS sc{i} AUTHORIZATION joe;",
 "CREATE DATABASE db{i};",
 "CREATE TABLESPACE ts{i};",
 "DROP TABLE old{i};",
 "CREATE TABLE h{i} (a int, b string) PARTITIONED BY (c int) STORED AS PARQUET LOCATION 's3://x/y';",
 "CREATE TABLE m{i} (a int) ENGINE=InnoDB DEFAULT CHARSET=utf8;",
]
UNS=[
 "SELECT a, b FROM t WHERE x = 1;",
 "INSERT INTO t (a, b) VALUES (1, 'x');",
 "UPDATE t SET a = 2 WHERE b = 3;",
 "DELETE FROM t WHERE a = 1;",
 "GRANT SELECT ON t TO joe;",
 "CREATE VIEW v AS SELECT a FROM t;",
 "CREATE OR REPLACE FUNCTION f() RETURNS int AS $$ SELECT 1 $$ LANGUAGE sql;",
 "USE mydb;",
 "GO",
 "COMMIT;",
 "BEGIN;",
 "TRUNCATE TABLE t;",
 "ANALYZE t;",
 "COMMENT ON TABLE t IS 'hello';",


 "DROP VIEW v;",
 "CREATE TRIGGER tr BEFORE INSERT ON t FOR EACH ROW EXECUTE PROCEDURE f();",
 "EXPLAIN SELECT 1;",
 "VACUUM;",
 "SELECT\n  a,\n  b\nFROM t;",
 "WITH x AS (SELECT 1) SELECT * FROM x;",
 "CREATE MATERIALIZED VIEW mv AS SELECT 1;",
 "ALTER SESSION SET x = 1;",
 "PRAGMA foreign_keys = ON;",
 "SHOW TABLES;",
 "CALL p(1, 2);",
 "LOCK TABLE t IN EXCLUSIVE MODE;",
]
def run(s):
    try: return DDLParser(s).run()
    except Exception as e: return "EXC "+repr(e)[:80]
# solo results of unsupported
print("UNSUPPORTED solo:")
for u in UNS:
    r=run(u+"\n")
    if r!=[]: print("  ",repr(u),"->",json.dumps(r)[:150])
bad=collections.Counter(); shown=0
for it in range(int(sys.argv[2]) if len(sys.argv)>2 else 300):
    n=R.randint(2,5)
    sts=[]
    for i in range(n):
        if R.random()<0.35: sts.append((R.choice(UNS),False))
        else: sts.append((R.choice(SUP).replace("{i}",str(i)),True))
    script="\n".join(s for s,_ in sts)+"\n"
    whole=run(script)
    parts=[]
    for s,sup in sts:
        if sup:
            r=run(s+"\n"); parts.extend(r if isinstance(r,list) else [r])
    if whole!=parts:
        bad["diff"]+=1
        if shown<8:
            shown+=1; print("DIFF\n",script,"\n whole:",json.dumps(whole)[:300],"\n parts:",json.dumps(parts)[:300])
print(bad)
