import json, hashlib, sys
from simple_ddl_parser import DDLParser
C=json.load(open('corpus.json')); h=hashlib.sha256()
for r in C:
    ikw={k:v for k,v in r['init_kw'].items() if k in("normalize_names",)}
    try: out=DDLParser(r['ddl'],**ikw).run(**r['run_kw'])
    except Exception as e: out="EXC "+type(e).__name__
    h.update(json.dumps(out,sort_keys=False).encode())
print(h.hexdigest()[:16])
