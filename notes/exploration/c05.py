from simple_ddl_parser import DDLParser
import random, json, sys, collections, re
R=random.Random(int(sys.argv[1]) if len(sys.argv)>1 else 0)
KW=set("DESC ASC CREATE TABLE IF NOT EXISTS NULL DEFAULT PRIMARY KEY UNIQUE REFERENCES ON DELETE UPDATE CONSTRAINT FOREIGN CHECK ALTER ADD INDEX SEQUENCE INCREMENT BY START WITH MINVALUE MAXVALUE NO CACHE DROP COLUMN".split())
STMTS=[
 ["CREATE","TABLE","s",".","t1","(","a","int","NOT","NULL",",","b","varchar","(","10",")","DEFAULT","'x'",",","c","decimal","(","10",",","2",")","PRIMARY","KEY",",","d","int","REFERENCES","p","(","k",")","ON","DELETE","CASCADE",")",";"],
 ["CREATE","TABLE","IF","NOT","EXISTS","t2","(","a","int",",","b","int","UNIQUE",",","CONSTRAINT","pk","PRIMARY","KEY","(","a",",","b",")",",","FOREIGN","KEY","(","b",")","REFERENCES","s",".","p","(","k",")",")",";"],
 ["CREATE","SEQUENCE","s",".","q","INCREMENT","BY","2","START","WITH","5","NO","MAXVALUE","CACHE","10",";"],
 ["CREATE","UNIQUE","INDEX","i1","ON","s",".","t1","(","a","DESC",",","b",")",";"],
 ["ALTER","TABLE","s",".","t1","ADD","CONSTRAINT","fk","FOREIGN","KEY","(","a",")","REFERENCES","p2","(","k",")",";"],
 ["ALTER","TABLE","s",".","t1","DROP","COLUMN","b",";"],
]
LINESTART=set("CREATE ALTER DROP SET GO USE INSERT GRANT DELETE".split())
def render(toks, mode):
    out=""
    for i,t in enumerate(toks):
        w=t
        if t.upper() in KW and mode.get("case"):
            w=R.choice([t.upper(),t.lower(),t.capitalize(),"".join(R.choice([c.upper(),c.lower()]) for c in t)])
        if i==0: out+=w; continue
        prev=toks[i-1]
        punct = t in ",().;" or prev in ",(."
        need = not punct
        if t==";" : sep=R.choice([""," "]) if mode.get("ws") else ""
        elif t=="." or prev==".": sep=""
        elif not mode.get("ws"): sep=" " if need or t=="(" and False else ("" if t in ",)" or prev=="(" else " ")
        else:
            opts=[" ","  ","\t"," \t "]
            if mode.get("nl") and t.upper() not in LINESTART and t not in ";": opts+=["\n","\n  ","\r\n"," \n\n "] if not mode.get("nocr") else ["\n","\n  "," \n\n "]
            if not need: opts+=[""]*3
            sep=R.choice(opts)
        out+=sep+w
    return out
def run(s):
    try: return DDLParser(s).run()
    except Exception as e: return "EXC "+repr(e)[:80]
bad=collections.Counter(); shown=0
for it in range(int(sys.argv[2]) if len(sys.argv)>2 else 200):
    k=R.sample(range(len(STMTS)),R.randint(1,3)); k.sort()
    if (4 in k or 5 in k or 3 in k) and 0 not in k: k=[0]+k
    base="\n".join(render(STMTS[i],{}) for i in k)+"\n"
    mode={"case":R.random()<.7,"ws":R.random()<.8,"nl":R.random()<.6}
    var="\n".join(render(STMTS[i],mode) for i in k)+"\n"
    rb,rv=run(base),run(var)
    if rb!=rv:
        bad["diff"]+=1
        if shown<6: shown+=1; print("DIFF mode",mode,"\nBASE:",repr(base),"\nVAR:",repr(var),"\n",json.dumps(rb)[:200],"\n",json.dumps(rv)[:400])
print(bad)
