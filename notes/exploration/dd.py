def ddiff(a,b,path=""):
    out=[]
    if type(a)!=type(b): return [(path,a,b)]
    if isinstance(a,dict):
        for k in sorted(set(a)|set(b),key=str):
            if k not in a: out.append((path+"/"+str(k),"<missing>",b[k]))
            elif k not in b: out.append((path+"/"+str(k),a[k],"<missing>"))
            else: out+=ddiff(a[k],b[k],path+"/"+str(k))
    elif isinstance(a,(list,tuple)):
        if len(a)!=len(b): out.append((path+"#len",len(a),len(b)))
        for i,(x,y) in enumerate(zip(a,b)): out+=ddiff(x,y,path+"[%d]"%i)
    elif a!=b: out.append((path,a,b))
    return out
