import sys, random, collections, json
sys.argv=[sys.argv[0]]+sys.argv[1:]
exec(open('c05.py').read().split("bad=collections.Counter()")[0])
def trial(mode, n=150, nlopts=None):
    global R
    bad=0; ex=None
    for it in range(n):
        k=R.sample(range(len(STMTS)),R.randint(1,3)); k.sort()
        if (4 in k or 5 in k or 3 in k) and 0 not in k: k=[0]+k
        base="\n".join(render(STMTS[i],{}) for i in k)+"\n"
        var="\n".join(render(STMTS[i],mode) for i in k)+"\n"
        if mode.get("crlf"): var=var.replace("\n","\r\n")
        rb,rv=run(base),run(var)
        if rb!=rv:
            bad+=1
            if ex is None: ex=(var,json.dumps(rv)[:300])
    return bad,ex
for name,mode in [("case",{"case":1}),("ws",{"ws":1}),("ws+nl(LF)",{"ws":1,"nl":1,"nocr":1}),("crlf-only",{"crlf":1}),("all-LF",{"case":1,"ws":1,"nl":1,"nocr":1})]:
    b,ex=trial(mode); print(name,b, ex and (repr(ex[0])[:500], ex[1]))
