from simple_ddl_parser import DDLParser
import random, sys, json, collections
R=random.Random(int(sys.argv[1]) if len(sys.argv)>1 else 0)
def gen():
    n=R.randint(2,6); cols=["c%d"%i for i in range(n)]
    items=[]; 
    model=dict(pk=[],uniq=set(),cons={"primary_keys":[],"uniques":[],"checks":[],"references":[]},checks=[],refs={})
    inline={}
    # inline
    for c in cols:
        o=[]
        r=R.random()
        if r<.15: o.append("PRIMARY KEY"); model["pk"].append(c)
        elif r<.3: o.append("UNIQUE"); model["uniq"].add(c)
        inline[c]=o
    kinds=["pk","uq","cuq","ck","cck","fk","cfk","cpk"]
    haspk=bool(model["pk"])
    tl=[]
    for k in R.sample(kinds,R.randint(0,4)):
        m=R.randint(1,min(3,n)); cs=R.sample(cols,m)
        if k=="pk" and not haspk:
            tl.append("PRIMARY KEY (%s)"%", ".join(cs)); model["pk"]+=cs; haspk=True
        elif k=="cpk" and not haspk:
            nm="pk_%d"%R.randint(0,99); tl.append("CONSTRAINT %s PRIMARY KEY (%s)"%(nm,", ".join(cs))); model["pk"]+=cs; haspk=True; model["cons"]["primary_keys"].append({"columns":cs,"constraint_name":nm})
        elif k=="uq":
            tl.append("UNIQUE (%s)"%", ".join(cs))
            if m==1: model["uniq"].add(cs[0])
            else: model["cons"]["uniques"].append({"columns":cs,"constraint_name":"UC_"+"_".join(cs)})
        elif k=="cuq":
            nm="uq_%d"%R.randint(0,99); tl.append("CONSTRAINT %s UNIQUE (%s)"%(nm,", ".join(cs))); model["cons"]["uniques"].append({"columns":cs,"constraint_name":nm})
        elif k=="ck":
            st="%s > %d"%(cs[0],R.randint(0,9)); tl.append("CHECK (%s)"%st); model["checks"].append({"constraint_name":None,"statement":st})
        elif k=="cck":
            nm="ck_%d"%R.randint(0,99); st="%s < %d"%(cs[0],R.randint(0,9)); tl.append("CONSTRAINT %s CHECK (%s)"%(nm,st)); model["checks"].append({"constraint_name":nm,"statement":st}); model["cons"]["checks"].append({"constraint_name":nm,"statement":st})
        elif k=="fk":
            cs=[c for c in cs if c not in model["refs"]]
            if not cs: continue
            rc=["k%d"%i for i in range(len(cs))]; act=R.choice([None,"CASCADE","RESTRICT"])
            tl.append("FOREIGN KEY (%s) REFERENCES s.p (%s)"%(", ".join(cs),", ".join(rc))+(" ON DELETE "+act if act else ""))
            for c,r in zip(cs,rc): model["refs"][c]=dict(table="p",schema="s",column=r,on_delete=act,on_update=None,deferrable_initially=None)
        elif k=="cfk":
            nm="fk_%d"%R.randint(0,99); rc=["k%d"%i for i in range(len(cs))]
            tl.append("CONSTRAINT %s FOREIGN KEY (%s) REFERENCES p2 (%s)"%(nm,", ".join(cs),", ".join(rc)))
            model["cons"]["references"].append(dict(table="p2",columns=rc,schema=None,on_delete=None,on_update=None,deferrable_initially=None,name=(cs[0] if len(cs)==1 else cs),constraint_name=nm))
    # interleave table-level items among columns? keep after columns, plus random position variant
    body=[ "%s int%s"%(c,(" "+" ".join(inline[c])) if inline[c] else "") for c in cols]
    ddl="CREATE TABLE t (\n  "+",\n  ".join(body+tl)+"\n);"
    return ddl,cols,model
bad=collections.Counter(); shown=0
for it in range(int(sys.argv[2]) if len(sys.argv)>2 else 500):
    ddl,cols,m=gen()
    try: r=DDLParser(ddl,silent=False).run()
    except Exception as e: bad["exc"]+=1; print("EXC",repr(e)[:100],ddl) if shown<5 else None; shown+=1; continue
    t=r[0]; errs=[]
    if t["primary_key"]!=m["pk"]: errs.append(("pk",t["primary_key"],m["pk"]))
    for c in t["columns"]:
        if c["name"] in m["pk"] and c["nullable"]: errs.append(("pk nullable",c["name"]))
        if c["name"] not in m["pk"] and not c["nullable"]: errs.append(("nonpk notnull",c["name"]))
        if c["unique"]!=(c["name"] in m["uniq"]): errs.append(("uniq",c["name"],c["unique"]))
        if c["references"]!=m["refs"].get(c["name"]): errs.append(("ref",c["name"],c["references"],m["refs"].get(c["name"])))
    cons={k:v for k,v in m["cons"].items() if v}
    if (t.get("constraints") or {})!=cons: errs.append(("cons",t.get("constraints"),cons))
    if t["checks"]!=m["checks"]: errs.append(("checks",t["checks"],m["checks"]))
    if errs:
        bad["mismatch"]+=1
        if shown<6: shown+=1; print(ddl,"\n  ",errs[:3])
print(bad)
