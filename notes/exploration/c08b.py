from simple_ddl_parser import DDLParser
import random, sys, re, json, collections
R=random.Random(int(sys.argv[1]) if len(sys.argv)>1 else 0)
SCRIPTS=[["CREATE TABLE s.t (","  a int NOT NULL,","  b varchar(10) DEFAULT 'x',","  c date","  );","CREATE SEQUENCE s.q START WITH 3;"],
 ["CREATE TABLE t1 (a int PRIMARY KEY, b decimal(10,2));","ALTER TABLE t1 ADD CONSTRAINT fk FOREIGN KEY (a) REFERENCES p (k);","CREATE INDEX i ON t1 (b);"],
 ["CREATE TABLE h (","  a int,","  b string",")","PARTITIONED BY (c int)","STORED AS PARQUET;","CREATE TYPE ty AS ENUM ('a', 'b');"]]
TEXTS=["plain words","create table x (y int);","a, b (c) ; d","select * from t","x = 1","50% done -- nested","KEY index unique","alter table t drop column a;"]
mk=[0]
def comment(style,indent=""):
    mk[0]+=1; m="zqx%d"%mk[0]; t=R.choice(TEXTS)
    if style=="dash": return [indent+"-- "+m+" "+t],m
    if style=="hash": return [indent+"# "+m+" "+t],m
    if style=="block1": return [indent+"/* "+m+" "+t+" */"],m
    if style=="blockml": return ["/* "+m+" "+t,"   "+m+" more "+t,"*/"],m
    if style=="blockml2": return ["/* "+m+" "+t,"   "+m+" more "+t+" */"],m
def squash(s): return re.sub(r"\s+","",s)
bad=collections.Counter(); ex={}
for it in range(int(sys.argv[2]) if len(sys.argv)>2 else 400):
    lines=list(R.choice(SCRIPTS)); base=DDLParser("\n".join(lines)+"\n").run()
    out=[]; inserted=[]
    for i,l in enumerate(lines+[None]):
        if R.random()<.4:
            st=R.choice(["dash","hash","block1","blockml","blockml2"]); c,m=comment(st,R.choice([""," ","    "]) if st in("dash","hash","block1") else ""); out+=c; inserted.append((m,c))
        if l is None: break
        if R.random()<.3:
            st=R.choice(["tdash","tblock"]); mk[0]+=1; m="zqx%d"%mk[0]; t=R.choice(TEXTS)
            tail=" -- "+m+" "+t if st=="tdash" else " /* "+m+" "+t+" */"
            out.append(l+tail); inserted.append((m,[tail]))
        else: out.append(l)
    try: r=DDLParser("\n".join(out)+"\n").run()
    except Exception as e: bad["exc"]+=1; ex.setdefault("exc",(out,repr(e)[:100])); continue
    ents=[e for e in r if "comments" not in e]; coms=[x for e in r if "comments" in e for x in e["comments"]]
    if ents!=base: bad["entities"]+=1; ex.setdefault("entities",(out,json.dumps(ents)[:200]))
    if "zqx" in json.dumps(ents): bad["leak"]+=1; ex.setdefault("leak",(out,))
    alltext=[squash(x) for m,c in inserted for x in c]
    order=[]
    for item in coms:
        sq=squash(item)
        if not any(sq in a for a in alltext): bad["item-not-comment"]+=1; ex.setdefault("item",(out,item))
        ms=re.findall(r"zqx\d+",item); order+= [int(x[3:]) for x in ms[:1]]
    if order!=sorted(order): bad["order"]+=1; ex.setdefault("order",(out,coms))
print(dict(bad))
for k,v in ex.items(): print(k,v)
