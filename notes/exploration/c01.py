import random, itertools, sys, json, collections
from simple_ddl_parser import DDLParser
R = random.Random(int(sys.argv[1]) if len(sys.argv)>1 else 0)
TYPES = [("int",None),("integer",None),("bigint",None),("varchar",(10,)),("varchar",(255,)),("char",(1,)),("decimal",(10,2)),("numeric",(5,0)),("text",None),("timestamp",None),("date",None),("boolean",None),("double precision",None),("character varying",(30,)),("float",(8,))]
NAMES = ["id","name","a","b1","col_x","Amount","created_at","user_id","x9","Status","price","qty","ZZ","desc_","t"]
DEFAULTS = [("0",0),("1",1),("42",42),("12345",12345),("'a'","'a'"),("'abc'","'abc'"),("NULL","NULL"),("null","NULL"),("'N/A'","'N/A'"),("TRUE","TRUE"),("false","false"),("3.14","3.14"),("-1","-1"),("now()","now()"),("CURRENT_TIMESTAMP","CURRENT_TIMESTAMP"),("''","''")]
def gen_col(i):
    name = R.choice(NAMES)+str(i)
    t,sz = R.choice(TYPES)
    opts=[]
    exp=dict(name=name,type=t,size=(sz[0] if sz and len(sz)==1 else sz),nullable=True,default=None,unique=False,references=None,pk=False)
    pool=["null","default","pk","unique","ref"]
    R.shuffle(pool)
    for o in pool[:R.randint(0,4)]:
        if o=="null":
            if R.random()<.6: opts.append(R.choice(["NOT NULL","not null","Not Null"])); exp["nullable"]=False
            else: opts.append(R.choice(["NULL","null"]))
        elif o=="default":
            s,v=R.choice(DEFAULTS); opts.append(R.choice(["DEFAULT ","default "])+s); exp["default"]=v
        elif o=="pk":
            opts.append(R.choice(["PRIMARY KEY","primary key"])); exp["pk"]=True; exp["nullable"]=False
        elif o=="unique":
            opts.append(R.choice(["UNIQUE","unique"])); exp["unique"]=True
        elif o=="ref":
            sch=R.choice([None,"s1"]); tb=R.choice(["other","Parent"]); col=R.choice(["id","k"])
            opts.append("REFERENCES "+(sch+"." if sch else "")+tb+"("+col+")")
            exp["references"]=dict(table=tb,schema=sch,column=col,on_delete=None,on_update=None,deferrable_initially=None)
    tstr = t + ("("+",".join(map(str,sz))+")" if sz else "")
    return name+" "+tstr+(" " if opts else "")+" ".join(opts), exp
def gen_table(k):
    n=R.randint(1,7)
    cols=[gen_col(i) for i in range(n)]
    sch=R.choice([None,"dev","Sch"])
    tn="tbl%d"%k
    ddl="CREATE TABLE "+(sch+"." if sch else "")+tn+" (\n  "+",\n  ".join(c[0] for c in cols)+"\n);"
    return ddl,(sch,tn,[c[1] for c in cols])
def check(res,exp):
    errs=[]
    sch,tn,cols=exp
    if res.get("table_name")!=tn or res.get("schema")!=sch: errs.append(("name",res.get("schema"),res.get("table_name")))
    rc=res.get("columns",[])
    if [c["name"] for c in rc]!=[c["name"] for c in cols]: errs.append(("colnames",[c["name"] for c in rc])); return errs
    for c,e in zip(rc,cols):
        for k in ["type","size","nullable","default","unique","references"]:
            v=c.get(k)
            if k=="references" and v and "columns" in v:
                v=dict(v); v["column"]=v.pop("columns")[0]
            if v!=e[k]: errs.append((e["name"],k,c.get(k),e[k]))
    pk=[e["name"] for e in cols if e["pk"]]
    if res.get("primary_key")!=pk: errs.append(("pk",res.get("primary_key"),pk))
    return errs
bad=collections.Counter(); N=int(sys.argv[2]) if len(sys.argv)>2 else 300
shown=0
for it in range(N):
    k=R.randint(1,3)
    ts=[gen_table(i) for i in range(k)]
    ddl="\n\n".join(t[0] for t in ts)
    try:
        res=DDLParser(ddl,silent=False).run()
    except Exception as ex:
        bad["exc:"+type(ex).__name__]+=1
        if shown<10: shown+=1; print("EXC",ex,"\n",ddl)
        continue
    if len(res)!=k:
        bad["count"]+=1; 
        if shown<10: shown+=1; print("COUNT",len(res),ddl)
        continue
    for r,t in zip(res,ts):
        e=check(r,t[1])
        if e:
            bad["mismatch"]+=1
            if shown<25: shown+=1; print("MISMATCH",e,"\n",t[0])
print(bad)
