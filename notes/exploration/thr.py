import threading, random, sys, time
from simple_ddl_parser import DDLParser
sys.setswitchinterval(1e-6)
def mk(i):
    q = '"' 
    nn = i%2==0
    ddl="\n".join(f'CREATE TABLE "S{i}"."T{i}_{k}" ("c{i}_{k}" int NOT NULL, "d" varchar({k+1}) DEFAULT \'v{i}\');' for k in range(6))
    return ddl, nn
def solo(i):
    ddl,nn=mk(i); return DDLParser(ddl,normalize_names=nn).run()
N=12
exp=[solo(i) for i in range(N)]
errs=[]
def worker(i,rounds):
    for _ in range(rounds):
        ddl,nn=mk(i)
        try:
            r=DDLParser(ddl,normalize_names=nn).run()
            if r!=exp[i]: errs.append((i,"DIFF"))
        except Exception as e:
            errs.append((i,repr(e)[:100]))
ts=[threading.Thread(target=worker,args=(i,15)) for i in range(N)]
t0=time.time()
[t.start() for t in ts]; [t.join() for t in ts]
print("errors",len(errs), errs[:5], "time",time.time()-t0)
