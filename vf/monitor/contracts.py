"""Runtime contracts on the repository's real functions (the icontract/deal idiom in ~50 lines
of standard library, so that no install step can break a check on a fresh restore).

    post(cls, "method", cond, label, snapshot=None)

wraps cls.method; `snapshot(self, *a, **kw)` is evaluated at entry (the OLD value), `cond(self,
result, OLD, *a, **kw)` at normal exit; it returns None/True when the condition holds or a
JSON-able witness when it does not.  Evaluations are counted (zero evaluations = the contract
was bypassed = inconclusive for whoever relies on it).  A contract never raises into the code it
observes: it records and lets the call return.
"""
from vf.monitor.hooks import STATE


def post(cls, name, cond, label, snapshot=None):
    if not hasattr(cls, name):
        STATE.unattached.append("%s.%s" % (getattr(cls, "__name__", cls), name))
        return False
    orig = getattr(cls, name)

    def wrapper(self, *a, **kw):
        old = None
        if snapshot is not None:
            try:
                old = snapshot(self, *a, **kw)
            except Exception as e:  # the snapshot itself must never disturb the call
                old = ("<snapshot failed>", repr(e))
        r = orig(self, *a, **kw)
        STATE.contract_evals[label] += 1
        if not getattr(STATE, "contracts_enabled", True):
            return r
        try:
            w = cond(self, r, old, *a, **kw)
        except Exception as e:
            w = {"contract_error": repr(e)}
        if w not in (None, True):
            STATE.counters["contract_violation:" + label] += 1
            if len(STATE.contract_violations) < 50:
                STATE.contract_violations.append({"contract": label, "witness": w})
        return r

    wrapper._vf_contract = label
    setattr(cls, name, wrapper)
    STATE.attached.append("contract:" + label)
    return True
