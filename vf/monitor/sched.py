"""M-SCHED: deterministic baton scheduler over yield points.

Yield points are function boundaries of the real code, wrapped from outside: after the lexer is
built (ply.lex.lex returns), after the parser tables are built (ply.yacc.yacc returns) and before
each statement is parsed (Parser.parse_statement entry) - the three places property C15 names.
A thread reaching a yield point blocks until the schedule hands it the baton, so exactly one
scheduled thread runs between two yield points and a schedule (a sequence of thread ids) fully
determines the interleaving at that granularity.
"""
import threading

_tl = threading.local()
_current = [None]
_installed = False
# finer yield points inside the output stage (after Output() is constructed, before each statement is formatted, before the
# regrouping): too many for exhaustive enumeration, so they are only active while FINE[0] is set (sampled schedules)
FINE = [False]


class Baton:
    def __init__(self, schedule, n, timeout=20.0):
        self.schedule = list(schedule)
        self.pos = 0
        self.n = n
        self.cv = threading.Condition()
        self.done = set()
        self.running = None
        self.trace = []
        self.timeout = timeout
        self.timed_out = False

    def _turn(self):
        while self.pos < len(self.schedule) and self.schedule[self.pos] in self.done:
            self.pos += 1
        if self.pos < len(self.schedule):
            return self.schedule[self.pos]
        alive = [i for i in range(self.n) if i not in self.done]
        return alive[0] if alive else None

    def yield_point(self, tid, tag):
        with self.cv:
            if self.running == tid:
                # the slice of tid that was running ends here
                if self.pos < len(self.schedule) and self.schedule[self.pos] == tid:
                    self.pos += 1
                self.running = None
                self.cv.notify_all()
            while self._turn() != tid or self.running is not None:
                if not self.cv.wait(timeout=self.timeout):
                    self.timed_out = True
                    raise RuntimeError("baton scheduler watchdog")
            self.running = tid
            self.trace.append((tid, tag))

    def finish(self, tid):
        with self.cv:
            if self.running == tid:
                if self.pos < len(self.schedule) and self.schedule[self.pos] == tid:
                    self.pos += 1
                self.running = None
            self.done.add(tid)
            self.cv.notify_all()


def yp(tag):
    b = _current[0]
    tid = getattr(_tl, "tid", None)
    if b is not None and tid is not None:
        b.yield_point(tid, tag)


def install():
    """wrap the three yield points (idempotent); returns the list of points that could not be attached"""
    global _installed
    missing = []
    if _installed:
        return missing
    _installed = True
    try:
        from ply import lex, yacc
        o_lex, o_yacc = lex.lex, yacc.yacc

        def w_lex(*a, **k):
            r = o_lex(*a, **k)
            yp("after_lexer_build")
            return r

        def w_yacc(*a, **k):
            r = o_yacc(*a, **k)
            yp("after_parser_build")
            return r

        lex.lex, yacc.yacc = w_lex, w_yacc
    except Exception as e:
        missing.append("ply.lex.lex / ply.yacc.yacc: %r" % (e,))
    try:
        from simple_ddl_parser import parser as P
        if hasattr(P.Parser, "parse_statement"):
            o_ps = P.Parser.parse_statement

            def w_ps(self, *a, **k):
                yp("before_statement")
                return o_ps(self, *a, **k)

            P.Parser.parse_statement = w_ps
        else:
            missing.append("Parser.parse_statement")
    except Exception as e:
        missing.append("Parser.parse_statement: %r" % (e,))
    try:
        from simple_ddl_parser.output import core as C
        O = C.Output
        o_init = O.__init__

        def w_init(self, *a, **k):
            r = o_init(self, *a, **k)
            if FINE[0]:
                yp("after_output_init")
            return r
        O.__init__ = w_init
        for meth, tag in (("process_statement_data", "before_output_statement"), ("process_alter_and_index_result", "before_output_alter"),
                          ("group_by_type_result", "before_regrouping")):
            if hasattr(O, meth):
                def mk(orig, tag):
                    def w(self, *a, **k):
                        if FINE[0]:
                            yp(tag)
                        return orig(self, *a, **k)
                    return w
                setattr(O, meth, mk(getattr(O, meth), tag))
            else:
                missing.append("Output." + meth)
    except Exception as e:
        missing.append("Output: %r" % (e,))
    return missing


def run_schedule(schedule, workers, timeout=20.0):
    """workers: list of callables (one per thread id); returns (results, trace, problems)"""
    n = len(workers)
    b = Baton(schedule, n, timeout)
    _current[0] = b
    results = [None] * n
    problems = []

    def body(tid):
        _tl.tid = tid
        try:
            b.yield_point(tid, "start")
            results[tid] = ("ok", workers[tid]())
        except RuntimeError as e:
            if "watchdog" in str(e):
                results[tid] = ("sched", "watchdog")
            else:
                results[tid] = ("exc", type(e).__name__, str(e)[:200])
        except Exception as e:
            results[tid] = ("exc", type(e).__name__, str(e)[:200])
        finally:
            _tl.tid = None
            b.finish(tid)

    ts = [threading.Thread(target=body, args=(i,), daemon=True) for i in range(n)]
    for t in ts:
        t.start()
    for t in ts:
        t.join(timeout + 10)
        if t.is_alive():
            problems.append("thread did not finish")
    blocked = None
    if problems or b.timed_out:
        blocked = blocked_witness([t for t in ts if t.is_alive()], b.running, ts)
    _current[0] = None
    if b.timed_out:
        problems.append("watchdog fired")
    if blocked:
        problems.append(blocked)
    return results, b.trace, problems


def stack_of(thread, depth=6):
    import sys
    f = sys._current_frames().get(thread.ident)
    out = []
    while f is not None and len(out) < depth:
        out.append("%s:%d %s" % (f.f_code.co_filename.split("/")[-1], f.f_lineno, f.f_code.co_name))
        f = f.f_back
    return out


def blocked_witness(alive, running_tid, ts):
    """the thread that holds the baton is the only one allowed to run; when it is still alive after the watchdog and its Python stack
    does not move for two more seconds it is *blocked* (not slow): {"blocked": ..} with the stack - a verdict the caller may use,
    unlike a bare timeout"""
    import time
    if running_tid is None or not ts[running_tid].is_alive():
        return None
    t = ts[running_tid]
    s1 = stack_of(t)
    time.sleep(2.0)
    s2 = stack_of(t)
    if s1 and s1 == s2 and not any(x.startswith("sched.py") for x in s1[:1]):
        return {"blocked_thread": running_tid, "stack": s1, "note": "sole runnable thread, identical stack for 2 s after a %s s watchdog" % "20"}
    return None
