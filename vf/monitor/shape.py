"""M-SHAPE: the documented result shape (property C12) as a structural invariant at the boundary."""
import json

TABLE_KEYS_LIST = ["columns", "checks", "index", "partitioned_by"]
COLUMN_KEYS = ["name", "type", "size", "references", "unique", "nullable", "default", "check"]
MANDATORY_BUCKETS = ["tables", "types", "sequences", "domains", "schemas", "ddl_properties"]


def check_table(t, mode, problems, where, pk_in_columns=True):
    schema_key = "dataset" if mode == "bigquery" else "schema"
    for k in ["table_name", schema_key, "primary_key", "columns", "alter", "checks", "index", "partitioned_by", "tablespace"]:
        if k not in t:
            problems.append("%s: table key %r missing" % (where, k))
    if "alter" in t and not isinstance(t["alter"], dict):
        problems.append("%s: alter is %s" % (where, type(t["alter"]).__name__))
    for k in TABLE_KEYS_LIST:
        if k in t and not isinstance(t[k], list):
            problems.append("%s: %s is %s, not list" % (where, k, type(t[k]).__name__))
    pk = t.get("primary_key")
    if "primary_key" in t:
        if not isinstance(pk, list) or not all(isinstance(x, str) for x in pk):
            problems.append("%s: primary_key is not a list of names: %r" % (where, pk))
    cols = t.get("columns")
    names = []
    if isinstance(cols, list):
        for i, c in enumerate(cols):
            w = "%s.columns[%d]" % (where, i)
            if not isinstance(c, dict):
                problems.append("%s: not a dict" % w)
                continue
            names.append(c.get("name"))
            for k in COLUMN_KEYS:
                if k not in c:
                    problems.append("%s(%s): column key %r missing" % (w, c.get("name"), k))
            for k in ("unique", "nullable"):
                if k in c and not isinstance(c[k], bool):
                    problems.append("%s(%s): %s is %r, not bool" % (w, c.get("name"), k, c[k]))
            if "name" in c and not isinstance(c["name"], str):
                problems.append("%s: name is %r" % (w, c["name"]))
    if pk_in_columns and isinstance(pk, list) and isinstance(cols, list):
        for x in pk:
            if x not in names:
                problems.append("%s: primary_key names %r which is not a column of the table %r" % (where, x, names))


def check(result, mode="sql", grouped=False, pk_in_columns=True):
    """list of problems (empty = the result has the documented shape and is JSON-serialisable)"""
    problems = []
    try:
        json.dumps(result)
    except Exception as e:
        problems.append("not JSON-serialisable: %r" % (e,))
    if grouped:
        if not isinstance(result, dict):
            return problems + ["grouped result is %s, not dict" % type(result).__name__]
        for b in MANDATORY_BUCKETS:
            if b not in result:
                problems.append("bucket %r missing" % b)
        ents = []
        for k, v in result.items():
            if not isinstance(v, list):
                problems.append("bucket %r is %s" % (k, type(v).__name__))
                continue
            if k == "comments":
                continue
            for e in v:
                ents.append(("%s" % k, e))
    else:
        if not isinstance(result, list):
            return problems + ["result is %s, not list" % type(result).__name__]
        ents = [("[%d]" % i, e) for i, e in enumerate(result)]
    for where, e in ents:
        if not isinstance(e, dict):
            problems.append("%s: entity is %s, not dict" % (where, type(e).__name__))
            continue
        if "table_name" in e:
            check_table(e, mode, problems, where + ":" + str(e.get("table_name")), pk_in_columns)
    return problems
