"""M-FS: file-system side-effect monitor built on sys.addaudithook (cannot be removed once
installed, so it is gated by a flag) + before/after directory listings."""
import os
import sys
import threading

_events = []
_enabled = False
_installed = False
_lock = threading.Lock()
WRITE_EVENTS = {"os.mkdir", "os.rename", "os.remove", "os.rmdir", "os.link", "os.symlink", "os.truncate", "shutil.move", "shutil.copyfile",
                "shutil.rmtree", "os.chmod", "os.utime", "tempfile.mkstemp", "tempfile.mkdtemp"}


def _hook(event, args):
    if not _enabled:
        return
    try:
        if event == "open":
            path, mode, flags = (list(args) + [None, None, None])[:3]
            writing = False
            if isinstance(mode, str) and any(c in mode for c in "wax+"):
                writing = True
            if isinstance(flags, int) and flags & (os.O_WRONLY | os.O_RDWR | os.O_CREAT | os.O_TRUNC | os.O_APPEND):
                writing = True
            if writing and path not in ("/dev/null",) and not isinstance(path, int):
                with _lock:
                    _events.append(("open-for-write", os.fspath(path) if not isinstance(path, (bytes,)) else path.decode("utf-8", "replace")))
        elif event in WRITE_EVENTS:
            with _lock:
                _events.append((event, " ".join(str(a) for a in args[:2])))
    except Exception:
        pass


def install():
    global _installed
    if not _installed:
        sys.addaudithook(_hook)
        _installed = True


class Watch:
    """with Watch() as w: ...   ->  w.events lists write-like operations observed meanwhile"""

    def __enter__(self):
        global _enabled
        install()
        with _lock:
            del _events[:]
        _enabled = True
        self.events = []
        return self

    def __exit__(self, *a):
        global _enabled
        _enabled = False
        with _lock:
            self.events = list(_events)
            del _events[:]


def listing(root):
    out = set()
    for dp, dn, fn in os.walk(root):
        for d in dn:
            out.add(os.path.relpath(os.path.join(dp, d), root) + "/")
        for f in fn:
            p = os.path.join(dp, f)
            try:
                st = os.stat(p)
                out.add("%s:%d:%d" % (os.path.relpath(p, root), st.st_size, st.st_mtime_ns))
            except OSError:
                out.add(os.path.relpath(p, root))
    return out
