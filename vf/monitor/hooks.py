"""Instrumentation attached from outside to the real classes of the snapshot under test.

Nothing here is committed into /repo: every hook wraps an attribute of a real class at import
time in the worker process.  A hook point that no longer exists is reported in
STATE.unattached and the boundary oracles still decide.

Monitors (DESIGN.md 2.1):
  M-BOUND  Parser.__init__ / Parser.run       call+return events, counters
  M-FLAGS  Parser.parse_statement (entry)     lexer flags must be at their reset values
  M-TOK    per-object lexer.token             token stream per statement, bigram coverage, lt_open
  M-PROD   LRParser.productions[i].callable   reductions per production
  M-REG    Output.add_alter_to_table / add_index_to_table   frame condition on the registry
  M-OWN    LRParser.parse                     which parser/lexer a statement was parsed with
  contracts (post-conditions on real functions, see contracts.py)
"""
import collections
import copy
import json
import re
import threading
import time

from vf.util import canon

FLAGS = ["is_table", "sequence", "last_token", "columns_def", "after_columns", "check",
         "last_par", "lp_open", "is_alter", "is_like", "lt_open"]


class State:
    def __init__(self):
        self.lock = threading.Lock()
        self.counters = collections.Counter()
        self.unattached = []
        self.attached = []
        self.record_events = False
        self.events = []           # M-BOUND
        self.seq = 0
        self.record_tokens = False
        self.stmt_tokens = []      # list of (statement text, [(type, value)])
        self.bigrams = set()
        self.token_types = collections.Counter()
        self.prods = collections.Counter()
        self.flag_leaks = []       # (statement prefix, {flag: value})
        self.flag_end_states = collections.Counter()
        self.lt_negative = []      # statements where lt_open went negative
        self.lt_end_nonzero = []
        self.reg_violations = []   # M-REG
        self.reg_events = 0
        self.own_violations = []   # M-OWN
        self.own_events = 0
        self.contract_violations = []
        self.contract_evals = collections.Counter()
        self.shape_fail = []
        self.tls = threading.local()

    def reset_logs(self):
        with self.lock:
            self.events = []
            self.stmt_tokens = []
            self.flag_leaks = []
            self.lt_negative = []
            self.lt_end_nonzero = []
            self.reg_violations = []
            self.own_violations = []
            self.contract_violations = []
            self.shape_fail = []

    def summary(self):
        return {
            "counters": dict(self.counters),
            "attached": list(self.attached),
            "unattached": list(self.unattached),
            "distinct_token_bigrams": len(self.bigrams),
            "token_types_seen": len(self.token_types),
            "distinct_productions_reduced": len(self.prods),
            "reductions": sum(self.prods.values()),
            "flag_end_states": len(self.flag_end_states),
            "reg_events": self.reg_events,
            "own_events": self.own_events,
            "contract_evals": dict(self.contract_evals),
        }


STATE = State()
_installed = False


def _own_norm(name):
    """the monitor's own identifier normaliser (deliberately not the repository's)"""
    if name is None:
        return None
    return re.sub(r'[\[\]"`]', "", str(name)).lower()


def install(prod=True, reg=True, own=True, tok=True):
    global _installed
    if _installed:
        return STATE
    _installed = True
    st = STATE
    try:
        from simple_ddl_parser import parser as P
    except Exception as e:  # pragma: no cover
        st.unattached.append("import simple_ddl_parser.parser: %r" % (e,))
        return st

    # ---------------------------------------------------------------- M-BOUND
    Parser = getattr(P, "Parser", None)
    if Parser is None:
        st.unattached.append("Parser")
        return st

    o_init = Parser.__init__

    def w_init(self, content, *a, **kw):
        st.counters["construct"] += 1
        try:
            self._vf_ctor = (content, a, dict(kw))
        except Exception:
            pass
        return o_init(self, content, *a, **kw)

    Parser.__init__ = w_init
    st.attached.append("Parser.__init__")

    if hasattr(Parser, "run"):
        o_run = Parser.run

        def w_run(self, *a, **kw):
            st.counters["run_call"] += 1
            ev = None
            if st.record_events:
                with st.lock:
                    st.seq += 1
                    ev = {"seq": st.seq, "obj": id(self), "thread": threading.get_ident(), "kw": dict(kw)}
                    st.events.append(("call", ev))
            try:
                r = o_run(self, *a, **kw)
            except BaseException as e:
                st.counters["run_raise"] += 1
                st.counters["run_raise:" + type(e).__name__] += 1
                if ev is not None:
                    with st.lock:
                        st.seq += 1
                        st.events.append(("raise", {"seq": st.seq, "call": ev["seq"], "exc": type(e).__name__, "msg": str(e)[:200]}))
                raise
            st.counters["run_return"] += 1
            if ev is not None:
                with st.lock:
                    st.seq += 1
                    try:
                        snap = copy.deepcopy(r)
                    except Exception:
                        snap = None
                    st.events.append(("return", {"seq": st.seq, "call": ev["seq"], "result": snap, "live": r}))
            return r

        Parser.run = w_run
        st.attached.append("Parser.run")
    else:
        st.unattached.append("Parser.run")

    # ---------------------------------------------------------------- M-FLAGS / M-TOK / M-PROD
    if hasattr(Parser, "parse_statement"):
        o_ps = Parser.parse_statement

        def w_ps(self, *a, **kw):
            st.counters["statements"] += 1
            lx = getattr(self, "lexer", None)
            stmt = getattr(self, "statement", None)
            if lx is not None:
                bad = {}
                for f in FLAGS:
                    v = getattr(lx, f, None)
                    if v not in (False, 0, None):
                        bad[f] = v
                if bad:
                    st.counters["flag_leak"] += 1
                    if len(st.flag_leaks) < 50:
                        st.flag_leaks.append((str(stmt)[:80], {k: str(v) for k, v in bad.items()}))
                if tok and not getattr(lx, "_vf_tok", False):
                    _wrap_lexer(lx)
                if tok:
                    lx._vf_cur = []
                    lx._vf_min_lt = 0
            if prod:
                y = getattr(self, "yacc", None)
                if y is not None and not getattr(y, "_vf_prod", False):
                    _wrap_productions(y)
            tls = st.tls
            tls.owner = self
            tls.parse_calls = []
            try:
                return o_ps(self, *a, **kw)
            finally:
                tls.owner = None
                if own:
                    st.own_events += 1
                    for (pobj, lobj) in getattr(tls, "parse_calls", []):
                        if pobj is not getattr(self, "yacc", None) or (lobj is not None and lobj is not lx):
                            st.counters["own_violation"] += 1
                            if len(st.own_violations) < 20:
                                st.own_violations.append({"statement": str(stmt)[:80],
                                                          "parser_is_own": pobj is getattr(self, "yacc", None),
                                                          "lexer_is_own": lobj is lx})
                if lx is not None and tok:
                    cur = getattr(lx, "_vf_cur", [])
                    if st.record_tokens:
                        with st.lock:
                            st.stmt_tokens.append((stmt, cur))
                    prev = "<S>"
                    for ty, _v in cur:
                        st.bigrams.add((prev, ty))
                        st.token_types[ty] += 1
                        prev = ty
                    st.counters["tokens"] += len(cur)
                    if getattr(lx, "_vf_min_lt", 0) < 0:
                        st.counters["lt_negative"] += 1
                        if len(st.lt_negative) < 20:
                            st.lt_negative.append(str(stmt)[:120])
                    end = getattr(lx, "lt_open", 0)
                    if end not in (0, False):
                        st.counters["lt_end_nonzero"] += 1
                        if len(st.lt_end_nonzero) < 20:
                            st.lt_end_nonzero.append((str(stmt)[:120], end))
                    try:
                        st.flag_end_states[tuple(bool(getattr(lx, f, None)) for f in FLAGS)] += 1
                    except Exception:
                        pass

        Parser.parse_statement = w_ps
        st.attached.append("Parser.parse_statement")
    else:
        st.unattached.append("Parser.parse_statement")

    # ---------------------------------------------------------------- M-OWN
    if own:
        try:
            from ply import yacc as _yacc
            LR = _yacc.LRParser
            o_parse = LR.parse

            def w_parse(self, input=None, lexer=None, *a, **kw):
                pc = getattr(st.tls, "parse_calls", None)
                if pc is not None and getattr(st.tls, "owner", None) is not None:
                    if lexer is None:
                        from ply import lex as _lex
                        used = getattr(_lex, "lexer", None)
                    else:
                        used = lexer
                    pc.append((self, used))
                return o_parse(self, input, lexer, *a, **kw)

            LR.parse = w_parse
            st.attached.append("LRParser.parse")
        except Exception as e:
            st.unattached.append("LRParser.parse: %r" % (e,))

    # ---------------------------------------------------------------- M-REG
    if reg:
        try:
            from simple_ddl_parser.output import core as C
            Output = C.Output
            for meth, kind in (("add_alter_to_table", "alter"), ("add_index_to_table", "index")):
                if hasattr(Output, meth):
                    _wrap_registry(Output, meth, kind)
                    st.attached.append("Output." + meth)
                else:
                    st.unattached.append("Output." + meth)
        except Exception as e:
            st.unattached.append("Output: %r" % (e,))
    return st


def _wrap_lexer(lx):
    st = STATE
    ot = lx.token

    def token():
        t = ot()
        if t is not None:
            cur = getattr(lx, "_vf_cur", None)
            if cur is not None:
                cur.append((t.type, t.value))
            lo = getattr(lx, "lt_open", 0)
            if isinstance(lo, int) and lo < getattr(lx, "_vf_min_lt", 0):
                lx._vf_min_lt = lo
        return t

    try:
        lx.token = token
        lx._vf_tok = True
    except Exception:
        if "lexer.token" not in st.unattached:
            st.unattached.append("lexer.token")


def _wrap_productions(y):
    st = STATE
    try:
        for pr in y.productions:
            c = getattr(pr, "callable", None)
            if c is not None and not getattr(c, "_vf", False):
                def mk(c, name):
                    def w(p):
                        st.prods[name] += 1
                        return c(p)
                    w._vf = True
                    return w
                pr.callable = mk(c, pr.str)
        y._vf_prod = True
    except Exception:
        if "productions" not in st.unattached:
            st.unattached.append("productions")


def _table_snap(t):
    try:
        d = {k: v for k, v in t.__dict__.items() if k != "init_data"}
    except Exception:
        d = repr(t)
    return canon(d)


def _wrap_registry(Output, meth, kind):
    st = STATE
    orig = getattr(Output, meth)

    def w(self, statement, *a, **kw):
        td = getattr(self, "tables_dict", None)
        if not isinstance(td, dict):
            return orig(self, statement, *a, **kw)
        try:
            if kind == "alter":
                want = (_own_norm(statement.get("alter_table_name")), _own_norm(statement.get("schema")))
            else:
                sk = getattr(self, "schema_key", "schema")
                want = (_own_norm(statement.get("table_name")), _own_norm(statement.get(sk) or statement.get("schema")))
        except Exception:
            want = None
        before = {k: _table_snap(v) for k, v in td.items()}
        ids_before = {k: id(v) for k, v in td.items()}
        exc = None
        try:
            return orig(self, statement, *a, **kw)
        except BaseException as e:
            exc = e
            raise
        finally:
            st.reg_events += 1
            after = {k: _table_snap(v) for k, v in td.items()}
            changed = [k for k in after if before.get(k) != after[k] or ids_before.get(k) != id(td[k])]
            changed += [k for k in before if k not in after]
            # the live objects registered under keys: which of them is the statement's own table?
            bad = []
            for k in changed:
                obj = td.get(k)
                name = getattr(obj, "table_name", None)
                schema = getattr(obj, "schema", None) if getattr(obj, "schema", None) is not None else getattr(obj, "dataset", None)
                if want is None or (_own_norm(name), _own_norm(schema)) != want:
                    bad.append({"changed": [name, schema], "statement_targets": list(want) if want else None})
            st.counters["reg_changed_%d" % len(changed)] += 1
            if exc is not None:
                st.counters["reg_raise"] += 1
            if bad:
                st.counters["reg_frame_violation"] += 1
                if len(st.reg_violations) < 20:
                    st.reg_violations.append({"kind": kind, "bad": bad})

    setattr(Output, meth, w)
