"""Worker process: one shard of one check, run against the snapshot on PYTHONPATH."""
import importlib
import json
import os
import sys
import time
import traceback


def main(argv):
    prop, tier, shard, nshards, seed, out = argv[:6]
    replay_file = argv[6] if len(argv) > 6 else None
    shard, nshards, seed = int(shard), int(nshards), int(seed)
    t0 = time.time()
    res = {"shard": shard, "crashed": None}
    try:
        mod = importlib.import_module("vf.checks." + prop.lower())
        from vf.monitor import hooks
        import simple_ddl_parser
        snap = os.environ.get("VF_SNAPSHOT", "")
        if snap and not os.path.abspath(simple_ddl_parser.__file__).startswith(os.path.abspath(snap)):
            raise RuntimeError("not running against the snapshot: %s" % simple_ddl_parser.__file__)
        if getattr(mod, "INSTALL_HOOKS", True):
            hooks.install(**getattr(mod, "HOOKS", {}))
        from vf.ctx import Ctx
        from vf import run as vrun
        ctx = Ctx(prop, tier, shard, nshards, seed, replay=bool(replay_file))
        if getattr(mod, "SHADOW", True) and not replay_file:
            vrun.SHADOW.update(p=float(os.environ.get("VF_SHADOW_P", "0.03")), rng=ctx.sub_rng("shadow", shard))
        if replay_file:
            rec = json.load(open(replay_file))
            if isinstance(rec.get("case"), dict) and rec["case"].get("gen") == "shadow":
                c = rec["case"]
                vrun.SHADOW.update(p=1.0, rng=ctx.sub_rng("shadow", 0))
                vrun.parse(c["ddl"], c.get("ctor") or {}, **(c.get("run_kw") or {}))
                ctx.evaluated(3)
            else:
                mod.check_case(ctx, rec["case"])
                ctx.evaluated(0)
        else:
            mod.run_shard(ctx)
        for f in vrun.SHADOW["found"]:
            from vf.util import short
            kf = vrun.classify_shadow(f)
            ctx.violation("same_call_differs:" + f["path"].split("(")[0].strip().replace(" ", "_"), {"gen": "shadow", "ddl": f["ddl"], "ctor": f["ctor"], "run_kw": f["run_kw"]},
                          {"path": f["path"], "observed": short(f["observed"], 300), "plain_call": short(f["first_call"], 300)}, kf=kf)
        ctx.obs["shadow_repeats_of_parse_calls"] += vrun.SHADOW["n"]
        if vrun.SHADOW.get("bystander_n"):
            ctx.obs["shadow_runs_with_a_bystander_object"] += vrun.SHADOW["bystander_n"]
        if vrun.SHADOW.get("bystander_exc_n"):
            ctx.obs["shadow_raising_calls_with_a_bystander_object"] += vrun.SHADOW["bystander_exc_n"]
        if vrun.SHADOW.get("final_newline_n"):
            ctx.obs["shadow_runs_with_the_final_line_end_toggled"] += vrun.SHADOW["final_newline_n"]
        if vrun.SHADOW.get("neighbour_n"):
            ctx.obs["shadow_runs_with_neighbour_statements"] += vrun.SHADOW["neighbour_n"]
        ctx.evaluated(2 * vrun.SHADOW["n"])
        res.update(ctx.result())
        st = hooks.STATE
        res["hooks"] = st.summary()
        res["hook_logs"] = {
            "flag_leaks": st.flag_leaks[:10],
            "lt_negative": st.lt_negative[:10],
            "lt_end_nonzero": st.lt_end_nonzero[:10],
            "reg_violations": st.reg_violations[:10],
            "own_violations": st.own_violations[:10],
            "contract_violations": st.contract_violations[:10],
        }
        res["prods"] = dict(st.prods)
        res["bigrams"] = sorted("%s>%s" % b for b in st.bigrams)
    except BaseException as e:  # a crash of the harness is inconclusive, never a verdict ...
        res["crashed"] = traceback.format_exc()[-4000:]
        try:
            # ... but what the monitors had witnessed before it is kept: a violation seen is a violation
            partial = ctx.result()
            res.update({k: v for k, v in partial.items() if k not in res})
        except Exception:
            pass
    res["wall_s"] = round(time.time() - t0, 3)
    with open(out, "w") as f:
        json.dump(res, f)
    return 0


if __name__ == "__main__":
    sys.exit(main(sys.argv[1:]))
