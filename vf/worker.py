"""Worker process: one shard of one check, run against the snapshot on PYTHONPATH."""
import importlib
import json
import os
import sys
import time
import traceback


def main(argv):
    prop, tier, shard, nshards, seed, out = argv[:6]
    replay_file = argv[6] if len(argv) > 6 else None
    shard, nshards, seed = int(shard), int(nshards), int(seed)
    t0 = time.time()
    res = {"shard": shard, "crashed": None}
    try:
        mod = importlib.import_module("vf.checks." + prop.lower())
        from vf.monitor import hooks
        import simple_ddl_parser
        snap = os.environ.get("VF_SNAPSHOT", "")
        if snap and not os.path.abspath(simple_ddl_parser.__file__).startswith(os.path.abspath(snap)):
            raise RuntimeError("not running against the snapshot: %s" % simple_ddl_parser.__file__)
        if getattr(mod, "INSTALL_HOOKS", True):
            hooks.install(**getattr(mod, "HOOKS", {}))
        from vf.ctx import Ctx
        ctx = Ctx(prop, tier, shard, nshards, seed, replay=bool(replay_file))
        if replay_file:
            rec = json.load(open(replay_file))
            mod.check_case(ctx, rec["case"])
            ctx.evaluated(0)
        else:
            mod.run_shard(ctx)
        res.update(ctx.result())
        st = hooks.STATE
        res["hooks"] = st.summary()
        res["hook_logs"] = {
            "flag_leaks": st.flag_leaks[:10],
            "lt_negative": st.lt_negative[:10],
            "lt_end_nonzero": st.lt_end_nonzero[:10],
            "reg_violations": st.reg_violations[:10],
            "own_violations": st.own_violations[:10],
            "contract_violations": st.contract_violations[:10],
        }
        res["prods"] = dict(st.prods)
        res["bigrams"] = sorted("%s>%s" % b for b in st.bigrams)
    except BaseException as e:  # a crash of the harness is inconclusive, never a verdict
        res["crashed"] = traceback.format_exc()[-4000:]
    res["wall_s"] = round(time.time() - t0, 3)
    with open(out, "w") as f:
        json.dump(res, f)
    return 0


if __name__ == "__main__":
    sys.exit(main(sys.argv[1:]))
