"""Driver:  ./check <Cnn> <quick|thorough>   |   ./check <Cnn> --replay <file>

exit 0  the property held on everything observed (KNOWN-FINDING lines for listed defects)
exit 1  VIOLATION property=<id> replay=<path>   (an unlisted violation, with a replay file)
exit 2  INCONCLUSIVE (a deciding monitor saw nothing, a worker died, no snapshot) - never a verdict
"""
import collections
import importlib
import json
import os
import shutil
import subprocess
import sys
import tempfile
import time

from vf import kf as kfmod
from vf.sandbox import PY, VERIF, Snapshot
from vf.util import digest, short

EVIDENCE_DIR = os.path.join(VERIF, "evidence")
REPLAY_DIR = os.path.join(VERIF, "replays")


def harvest_corpus(snap):
    """run the repository's own tests (snapshot copy) under a plugin that records every
    DDLParser construction/run: the regression corpus"""
    out = os.path.join(snap.dir, "corpus.json")
    env = snap.env(HARVEST_OUT=out)
    try:
        r = subprocess.run(
            [PY, "-B", "-m", "pytest", "-q", "-p", "no:cacheprovider", "-p", "vf.gen.harvest_plugin", "tests"],
            cwd=snap.dir, env=env, capture_output=True, text=True, timeout=600)
    except subprocess.TimeoutExpired:
        return None, "corpus harvest timed out"
    if not os.path.exists(out):
        return None, "corpus harvest produced nothing: " + (r.stdout + r.stderr)[-1500:]
    try:
        n = len(json.load(open(out)))
    except Exception as e:
        return None, "corpus unreadable: %r" % (e,)
    return n, None


def run_workers(mod, prop, tier, seed, snap, nshards, timeout, replay=None):
    tmp = tempfile.mkdtemp(prefix="vf_out_")
    procs = []
    for sh in range(nshards):
        out = os.path.join(tmp, "shard%d.json" % sh)
        extra = {}
        if hasattr(mod, "shard_env"):
            extra = mod.shard_env(sh, nshards, tier) or {}
        env = snap.env(VERIF_SEED=seed, VERIF_TIER=tier, **extra)
        cmd = [PY, "-B", "-m", "vf.worker", prop, tier, str(sh), str(nshards), str(seed), out]
        if replay:
            cmd.append(replay)
        logf = open(os.path.join(tmp, "shard%d.log" % sh), "w")
        p = subprocess.Popen(cmd, env=env, cwd=tmp, stdout=logf, stderr=subprocess.STDOUT)
        procs.append((sh, p, out, logf))
    results, problems = [], []
    deadline = time.time() + timeout
    for sh, p, out, logf in procs:
        try:
            p.wait(timeout=max(1, deadline - time.time()))
        except subprocess.TimeoutExpired:
            p.kill()
            p.wait()
            problems.append("shard %d: watchdog timeout after %ds" % (sh, timeout))
            continue
        finally:
            logf.close()
        if not os.path.exists(out):
            tail = open(os.path.join(tmp, "shard%d.log" % sh)).read()[-1500:]
            problems.append("shard %d: no result (exit %s): %s" % (sh, p.returncode, tail))
            continue
        try:
            res = json.load(open(out))
        except Exception as e:
            problems.append("shard %d: unreadable result %r" % (sh, e))
            continue
        if res.get("crashed"):
            problems.append("shard %d crashed: %s" % (sh, res["crashed"][-1500:]))
            if "violations" not in res:
                continue            # nothing observed before the crash
        results.append(res)
    shutil.rmtree(tmp, ignore_errors=True)
    return results, problems


def merge(results):
    m = {
        "evaluations": 0, "nontrivial": set(), "violations": [], "vcount": collections.Counter(),
        "samples": [], "obs": collections.Counter(), "obs_sets": collections.defaultdict(set),
        "hook_counters": collections.Counter(), "unattached": set(), "attached": set(),
        "prods": collections.Counter(), "bigrams": set(), "contract_evals": collections.Counter(),
        "hook_logs": collections.defaultdict(list), "inconclusive": [], "notes": [],
        "reg_events": 0, "own_events": 0, "flag_end_states": 0,
    }
    for r in results:
        m["evaluations"] += r.get("evaluations", 0)
        m["nontrivial"].update(r.get("nontrivial", []))
        m["violations"].extend(r.get("violations", []))
        for k, kf, n in r.get("vcount", []):
            m["vcount"][(k, kf)] += n
        for s in r.get("samples", []):
            if len(m["samples"]) < 5:
                m["samples"].append(s)
        m["obs"].update(r.get("obs", {}))
        for k, v in r.get("obs_sets", {}).items():
            m["obs_sets"][k].update(v)
        h = r.get("hooks", {})
        m["hook_counters"].update(h.get("counters", {}))
        m["unattached"].update(h.get("unattached", []))
        m["attached"].update(h.get("attached", []))
        m["contract_evals"].update(h.get("contract_evals", {}))
        m["reg_events"] += h.get("reg_events", 0)
        m["own_events"] += h.get("own_events", 0)
        m["flag_end_states"] = max(m["flag_end_states"], h.get("flag_end_states", 0))
        m["prods"].update(r.get("prods", {}))
        m["bigrams"].update(r.get("bigrams", []))
        for k, v in r.get("hook_logs", {}).items():
            m["hook_logs"][k].extend(v[:5])
        m["inconclusive"].extend(r.get("inconclusive", []))
        m["notes"].extend(r.get("notes", []))
    return m


def write_evidence(prop, tier, seed, mod, m, wall, unlisted, known_seen, problems, extra_cov=None):
    os.makedirs(EVIDENCE_DIR, exist_ok=True)
    cov = {
        "evaluations": int(m["evaluations"]),
        "distinct_nontrivial": len(m["nontrivial"]),
        "rule": getattr(mod, "RULE", ""),
        "samples": m["samples"][:5],
        "exhaustive": False,
        "observed": {
            "check": {k: v for k, v in sorted(m["obs"].items())},
            "check_distinct": {k: len(v) for k, v in sorted(m["obs_sets"].items())},
            "hook_counters": {k: v for k, v in sorted(m["hook_counters"].items())},
            "distinct_token_bigrams": len(m["bigrams"]),
            "distinct_productions_reduced": len(m["prods"]),
            "reductions": int(sum(m["prods"].values())),
            "registry_mutation_events": m["reg_events"],
            "ownership_events": m["own_events"],
            "lexer_flag_states_at_statement_end": m["flag_end_states"],
            "contract_evaluations": dict(m["contract_evals"]),
        },
        "hook_witnesses": {k: v[:3] for k, v in m["hook_logs"].items() if v},
        "known_findings_seen": known_seen,
        "attached_monitors": sorted(m["attached"]),
        "unattached_monitors": sorted(m["unattached"]),
        "inconclusive_reasons": (problems + m["inconclusive"])[:10],
        "violation_kinds": {"%s%s" % (k, "|" + kf if kf else ""): n for (k, kf), n in m["vcount"].items()},
    }
    if extra_cov:
        cov.update(extra_cov)
    ev = {
        "property_id": prop,
        "tier": tier,
        "seed": int(seed),
        "level": getattr(mod, "LEVEL", "exploration"),
        "coverage": cov,
        "assumptions": getattr(mod, "ASSUMPTIONS", []),
        "wall_s": round(wall, 2),
        "violations": unlisted,
    }
    path = os.path.join(EVIDENCE_DIR, prop + ".json")
    with open(path + ".tmp", "w") as f:
        json.dump(ev, f, indent=1, ensure_ascii=False, default=str)
    os.replace(path + ".tmp", path)
    return path


def main(argv):
    if len(argv) < 2:
        print(__doc__)
        return 2
    prop = argv[0].upper()
    replay = None
    if argv[1] == "--replay":
        replay = os.path.abspath(argv[2])
        tier = "quick"
    else:
        tier = argv[1]
    if tier not in ("quick", "thorough"):
        print("tier must be quick or thorough")
        return 2
    seed = int(os.environ.get("VERIF_SEED", "0") or 0)
    t0 = time.time()
    try:
        mod = importlib.import_module("vf.checks." + prop.lower())
    except ImportError as e:
        print("INCONCLUSIVE property=%s no check module: %r" % (prop, e))
        return 2

    needs_corpus = getattr(mod, "NEEDS_CORPUS", False)
    snap = Snapshot(with_tests=needs_corpus, prime=getattr(mod, "PRIME", True))
    try:
        if getattr(mod, "PRIME", True) and snap.primed != "ok":
            print("INCONCLUSIVE property=%s snapshot of /repo could not construct a parser: %s" % (prop, snap.primed))
            return 2
        corpus_n = None
        if needs_corpus and not replay:
            corpus_n, err = harvest_corpus(snap)
            if err:
                print("INCONCLUSIVE property=%s %s" % (prop, err))
                return 2
        if replay:
            nshards = 1
        else:
            nshards = getattr(mod, "WORKERS", {"quick": 8, "thorough": 16})[tier]
        timeout = getattr(mod, "TIMEOUT", {"quick": 900, "thorough": 7200})[tier]
        results, problems = run_workers(mod, prop, tier, seed, snap, nshards, timeout, replay=replay)
        m = merge(results)
        if hasattr(mod, "post_merge") and not replay:
            mod.post_merge(results, m)
    finally:
        snap.cleanup()

    # ---------------------------------------------------------------- verdict
    open_kf = kfmod.open_keys(prop)
    known_seen, unlisted_groups = {}, collections.OrderedDict()
    for (kind, kfkey), n in m["vcount"].items():
        if kfkey and kfkey in open_kf:
            known_seen[kfkey] = known_seen.get(kfkey, 0) + n
        else:
            unlisted_groups[(kind, kfkey)] = n
    unlisted_total = sum(unlisted_groups.values())

    # inconclusive conditions
    inconc = list(problems) + list(m["inconclusive"])
    if not replay:
        for counter, minimum in getattr(mod, "MIN_EVENTS", {}).items():
            have = m["hook_counters"].get(counter, m["obs"].get(counter, 0))
            if have < minimum:
                inconc.append("deciding monitor %r observed %d events (< %d)" % (counter, have, minimum))
        if m["evaluations"] == 0:
            inconc.append("no evaluations")

    extra_cov = {"corpus_records": corpus_n} if corpus_n is not None else None
    if not replay:
        write_evidence(prop, tier, seed, mod, m, time.time() - t0, unlisted_total, known_seen, inconc, extra_cov)

    for key, n in sorted(known_seen.items()):
        e = open_kf[key]
        print("KNOWN-FINDING: property=%s %s - %s (%d cases this run)" % (prop, key, e["title"], n))

    rc = 0
    if unlisted_total:
        os.makedirs(os.path.join(REPLAY_DIR, prop), exist_ok=True)
        shown = set()
        for v in m["violations"]:
            g = (v["kind"], v.get("kf"))
            if g not in unlisted_groups or g in shown:
                continue
            shown.add(g)
            rec = {"property": prop, "kind": v["kind"], "unlisted_kf_tag": v.get("kf"), "seed": seed, "tier": tier,
                   "case": v["case"], "detail": v["detail"], "count_this_run": unlisted_groups[g]}
            path = os.path.join(REPLAY_DIR, prop, "%s-%s.json" % (v["kind"].replace("/", "_").replace(" ", "_")[:40], digest(v["case"], 10)))
            if not replay:
                with open(path, "w") as f:
                    json.dump(rec, f, indent=1, ensure_ascii=False, default=str)
            else:
                path = replay
            print("VIOLATION property=%s replay=%s" % (prop, path))
            print("  kind=%s count=%d detail=%s" % (v["kind"], unlisted_groups[g], short(v["detail"], 600)))
        rc = 1
    elif inconc:
        print("INCONCLUSIVE property=%s" % prop)
        for i in inconc[:8]:
            print("  " + str(i)[:1500])
        rc = 2
    else:
        print("OK property=%s tier=%s seed=%s evaluations=%d distinct_nontrivial=%d known_findings=%d wall=%.1fs" % (
            prop, tier, seed, m["evaluations"], len(m["nontrivial"]), len(known_seen), time.time() - t0))
    return rc


if __name__ == "__main__":
    sys.exit(main(sys.argv[1:]))
