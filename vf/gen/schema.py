"""Abstract schemas (tables, columns, options, table-level clauses), their token rendering and
the *reference model*: the expected parse result built from the abstract object only (it never
looks at DDL text and never calls the parser)."""
import itertools

from vf.gen.render import I, K, L, N, P, T, comma_list, dotted, paren, render
from vf.gen.vocab import DECIMALS, pick_names

# --------------------------------------------------------------------------- types
# (words, size[, words after the size])   size: None | [n] | [p, s]
CORE_TYPES = [
    (["int"], None), (["integer"], None), (["bigint"], None), (["smallint"], None),
    (["text"], None), (["date"], None), (["timestamp"], None), (["boolean"], None),
    (["float"], None), (["real"], None), (["INT"], None), (["Text"], None),
    (["varchar"], [10]), (["varchar"], [255]), (["char"], [1]), (["VARCHAR"], [64]),
    (["decimal"], [10, 2]), (["numeric"], [5, 0]), (["number"], [38]), (["float"], [8]),
    (["double", "precision"], None), (["character", "varying"], [30]), (["varchar"], None),
    (["decimal"], [18, 4]), (["NUMERIC"], [12, 3]),
    # type words after the size (MySQL): reported as part of the type text, the size stays whole
    (["decimal"], [10, 2], ["unsigned"]), (["int"], [11], ["unsigned"]), (["numeric"], [8, 3], ["unsigned", "zerofill"]), (["bigint"], [20], ["UNSIGNED"]), (["int"], None, ["unsigned"]),
    (["time"], [0]), (["timestamp"], [0]), (["varchar"], [0]), (["decimal"], [0, 0]), (["timestamp"], [6]), (["bit", "varying"], [5]),
]

PLAIN_NAMES = ["id", "name", "a", "b1", "col_x", "Amount", "created_at", "user_id", "x9", "Status",
               "price", "qty", "ZZ", "desc_", "t", "val", "Code", "n_items", "flag", "ts"]

# (text tokens, expected value)
# pg_dump style casts, also to types whose name has two words (the value is reported verbatim, blanks included)
CAST_DEFAULTS = ["'n/a'::character varying", "'x'::text", "'0'::double precision", "'p'::public.vis", "0::numeric", "'101'::bit varying",
                 "'a b'::character varying", "'{}'::jsonb", "NULL::character varying"]
DEFAULTS = [
    (N(0), 0), (N(1), 1), (N(42), 42), (N(12345), 12345), (N(1234567890123), 1234567890123),
    (L("'a'"), "'a'"), (L("'abc'"), "'abc'"), (L("'N/A'"), "'N/A'"), (L("''"), "''"), (L("'Hello World'"), "'Hello World'"),
    (K("NULL"), "NULL"), (T("TRUE"), "TRUE"), (T("false"), "false"), (T("3.14"), "3.14"),
    (T("-1"), "-1"), (T("CURRENT_TIMESTAMP"), "CURRENT_TIMESTAMP"), (T("now()"), "now()"),
    (N("007"), 7), (L("'0'"), "'0'"), (L("'x y z'"), "'x y z'"),
    # parenthesised forms (the parentheses are not part of the reported value)
    (paren(L("'N'")), "'N'"), (paren(L("''")), "''"), (paren(L("'a b'")), "'a b'"), (paren(N(0)), 0), (paren(N(15)), 15),
    (paren(T("now()")), "now()"), (paren(T("NULL")), "NULL"), (paren(T("-1")), "-1"), (paren(T("1.5")), "1.5"), (T("+5"), "+5"),
    (paren(T("getdate()")), "getdate()"),
    (L("'$$'"), "'$$'"), (L("'paid in $$'"), "'paid in $$'"),
    # a ';' inside the literal, followed by a blank / several words (no statement ends there, whatever the line layout)
    (L("'n/a; none'"), "'n/a; none'"), (L("'/bin;/usr/bin and more'"), "'/bin;/usr/bin and more'"),
] + [(T(d), d) for d in DECIMALS] + [(paren(T(d)), d) for d in DECIMALS[:4]] + [(T(d), d) for d in CAST_DEFAULTS]

ACTIONS = [None, "CASCADE", "RESTRICT", "cascade", "Restrict"]


def type_tokens(ty):
    words, size = ty[0], ty[1]
    toks = []
    for w in words:
        toks += T(w)
    if size:
        toks += paren(comma_list([N(x) for x in size]))
    for w in (ty[2] if len(ty) > 2 else ()):
        toks += T(w)              # type words written after the size: decimal(10,2) unsigned
    return toks


def type_expect(ty):
    words, size = list(ty[0]) + list(ty[2] if len(ty) > 2 else ()), ty[1]
    if not size:
        sz = None
    elif len(size) == 1:
        sz = size[0]
    else:
        sz = list(size)
    return " ".join(words), sz


# --------------------------------------------------------------------------- columns
def make_column(name, ty, opts):
    return {"name": name, "type": ty, "opts": opts}


DEFERRABLE = [None, None, None, None, "DEFERRED", "IMMEDIATE", "NOT"]      # the forms the pinned grammar reads, written last in a REFERENCES clause


def deferrable_tokens(d):
    if d is None:
        return []
    if d == "NOT":
        return K("NOT DEFERRABLE")
    return K("DEFERRABLE INITIALLY") + T(d)


CHECK_FNS = [None, None, None, "abs", "length", "coalesce2", "div"]      # a function call around the column: parentheses inside the condition, before the comparison


def check_lhs(o):
    fn = o.get("fn")
    if not fn:
        return I(o["col"])
    if fn == "coalesce2":
        return T("coalesce") + paren(I(o["col"]) + P(",") + N(0))
    if fn == "div":
        return I(o["col"]) + T("/") + N(2)          # an operator that is a word of its own (always set off by white space)
    return T(fn) + paren(I(o["col"]))


def check_lhs_text(o):
    fn = o.get("fn")
    if not fn:
        return o["col"]
    if fn == "coalesce2":
        return "coalesce(%s,0)" % o["col"]
    if fn == "div":
        return "%s / 2" % o["col"]
    return "%s(%s)" % (fn, o["col"])


def opt_tokens(o):
    k = o["k"]
    if k == "notnull":
        return K("NOT NULL")
    if k == "null":
        return K("NULL")
    if k == "default":
        return K("DEFAULT") + o["toks"]
    if k == "pk":
        return K("PRIMARY KEY")
    if k == "unique":
        return K("UNIQUE")
    if k == "ref":
        pre = (K("CONSTRAINT") + I(o["cname"])) if o.get("cname") else []      # inline named foreign key
        toks = pre + K("REFERENCES") + dotted(o.get("schema"), o["table"]) + paren(I(o["column"]))
        if o.get("on_delete"):
            toks += K("ON DELETE") + T(o["on_delete"])
        if o.get("on_update"):
            toks += K("ON UPDATE") + T(o["on_update"])
        toks += deferrable_tokens(o.get("deferrable"))
        return toks
    if k == "check":
        pre = (K("CONSTRAINT") + I(o["cname"])) if o.get("cname") else []
        return pre + K("CHECK") + paren(check_lhs(o) + T(o["op"]) + N(o["val"]))
    if k == "comment":
        return K("COMMENT") + L(o["text"])
    if k == "autoinc":
        return K(o["word"])          # AUTO_INCREMENT / AUTOINCREMENT: dedicated lexer rules, matched in any letter case
    if k == "collate":
        return K("COLLATE") + T(o["name"])
    raise ValueError(k)


def column_tokens(c):
    toks = I(c["name"]) + type_tokens(c["type"])
    for o in c["opts"]:
        toks += opt_tokens(o)
    return toks


def ref_expect(o):
    return {"table": o["table"], "schema": o.get("schema"), "on_delete": o.get("on_delete"),
            "on_update": o.get("on_update"), "deferrable_initially": o.get("deferrable"), "column": o["column"]}


def column_expect(c):
    ty, sz = type_expect(c["type"])
    e = {"name": c["name"], "type": ty, "size": sz, "nullable": True, "default": None, "unique": False,
         "references": None, "check": None, "_pk": False}
    for o in c["opts"]:
        k = o["k"]
        if k == "notnull":
            e["nullable"] = False
        elif k == "default":
            e["default"] = o["exp"]
        elif k == "pk":
            e["_pk"] = True
            e["nullable"] = False
        elif k == "unique":
            e["unique"] = True
        elif k == "ref":
            e["references"] = ref_expect(o)
        elif k == "check":
            e["check"] = "%s %s %s" % (check_lhs_text(o), o["op"], o["val"])
            if o.get("cname"):
                e["check"] = {"constraint_name": o["cname"], "statement": e["check"]}
        elif k == "comment":
            e["comment"] = o["text"]
    return e


# --------------------------------------------------------------------------- table-level clauses
def clause_tokens(cl):
    k = cl["kind"]
    pre = (K("CONSTRAINT") + I(cl["name"])) if cl.get("name") else []
    if k == "pk":
        # optional per-column sort direction (a keyword: not part of the key's column list)
        orders = cl.get("orders") or [None] * len(cl["cols"])
        mod = K(cl["modifier"]) if cl.get("modifier") else []       # mssql: PRIMARY KEY [NON]CLUSTERED (...)
        return pre + K("PRIMARY KEY") + mod + paren(comma_list([I(c) + (K(o) if o else []) for c, o in zip(cl["cols"], orders)]))
    if k == "unique":
        return pre + K("UNIQUE") + paren(comma_list([I(c) for c in cl["cols"]]))
    if k == "check":
        return pre + K("CHECK") + paren(check_lhs(cl) + T(cl["op"]) + N(cl["val"]))
    if k == "fk":
        toks = pre + K("FOREIGN KEY") + paren(comma_list([I(c) for c in cl["cols"]]))
        toks += K("REFERENCES") + dotted(cl.get("ref_schema"), cl["ref_table"]) + paren(comma_list([I(c) for c in cl["ref_cols"]]))
        if cl.get("on_delete"):
            toks += K("ON DELETE") + T(cl["on_delete"])
        if cl.get("on_update"):
            toks += K("ON UPDATE") + T(cl["on_update"])
        toks += deferrable_tokens(cl.get("deferrable"))
        return toks
    raise ValueError(k)


# --------------------------------------------------------------------------- tables
def table_head_tokens(t):
    pre = t.get("prefix", "plain")
    if pre == "plain":
        toks = K("CREATE TABLE")
    elif pre == "if_not_exists":
        toks = K("CREATE TABLE IF NOT EXISTS")
    elif pre == "or_replace":
        toks = K("CREATE OR REPLACE TABLE")
    elif pre == "temporary":
        toks = K("CREATE") + T("TEMPORARY") + K("TABLE")
    else:
        raise ValueError(pre)
    return toks + dotted(t.get("schema"), t["name"])


def table_item_tokens(t):
    out = []
    for kind, it in t["items"]:
        out.append(column_tokens(it) if kind == "col" else clause_tokens(it))
    return out


def table_tokens(t):
    return table_head_tokens(t) + paren(comma_list(table_item_tokens(t))) + P(";")


def table_expect(t):
    """expected table entity (only the keys the core model owns)"""
    cols = [column_expect(it) for kind, it in t["items"] if kind == "col"]
    by = {c["name"]: c for c in cols}
    pk = [c["name"] for c in cols if c["_pk"]]
    cons = {}
    checks = []
    for kind, cl in t["items"]:
        if kind != "clause":
            continue
        k = cl["kind"]
        if k == "pk":
            pk = pk + list(cl["cols"])
            if cl.get("name"):
                cons.setdefault("primary_keys", []).append({"columns": list(cl["cols"]), "constraint_name": cl["name"]})
        elif k == "unique":
            if cl.get("name"):
                cons.setdefault("uniques", []).append({"columns": list(cl["cols"]), "constraint_name": cl["name"]})
            elif len(cl["cols"]) == 1:
                if cl["cols"][0] in by:
                    by[cl["cols"][0]]["unique"] = True
            else:
                cons.setdefault("uniques", []).append({"columns": list(cl["cols"]), "constraint_name": "UC_" + "_".join(cl["cols"])})
        elif k == "check":
            st = "%s %s %s" % (check_lhs_text(cl), cl["op"], cl["val"])
            checks.append({"constraint_name": cl.get("name"), "statement": st})
            if cl.get("name"):
                cons.setdefault("checks", []).append({"constraint_name": cl["name"], "statement": st})
        elif k == "fk":
            base = {"table": cl["ref_table"], "schema": cl.get("ref_schema"), "on_delete": cl.get("on_delete"),
                    "on_update": cl.get("on_update"), "deferrable_initially": cl.get("deferrable")}
            if cl.get("name"):
                r = dict(base)
                r["columns"] = list(cl["ref_cols"])
                r["name"] = cl["cols"][0] if len(cl["cols"]) == 1 else list(cl["cols"])
                r["constraint_name"] = cl["name"]
                cons.setdefault("references", []).append(r)
            else:
                for c, rc in zip(cl["cols"], cl["ref_cols"]):
                    if c in by:
                        r = dict(base)
                        r["column"] = rc
                        by[c]["references"] = r
    for c in cols:
        if c["name"] in pk:
            c["nullable"] = False
    exp = {"table_name": t["name"], "schema": t.get("schema"), "columns": cols, "primary_key": pk,
           "constraints": cons, "checks": checks}
    pre = t.get("prefix", "plain")
    if pre == "if_not_exists":
        exp["if_not_exists"] = True
    if pre == "or_replace":
        exp["replace"] = True
    return exp


def norm_ref(r):
    """tolerated reporting convention: {"columns":[x]} == {"column": x}"""
    if isinstance(r, dict) and "columns" in r and "column" not in r and isinstance(r["columns"], list) and len(r["columns"]) == 1:
        r = dict(r)
        r["column"] = r.pop("columns")[0]
    return r


def _same(a, b):
    if isinstance(a, tuple):
        a = list(a)
    if isinstance(b, tuple):
        b = list(b)
    return a == b and type(a) is type(b) or (a == b and not isinstance(a, bool) and not isinstance(b, bool) and isinstance(a, (int, float)) and isinstance(b, (int, float)))


def compare_table(ent, exp, fields=("type", "size", "nullable", "default", "unique", "references", "check"),
                  check_constraints=True, extra_column_keys=()):
    """list of (what, observed, expected)"""
    errs = []
    if not isinstance(ent, dict):
        return [("entity", ent, "a table dict")]
    if ent.get("table_name") != exp["table_name"]:
        errs.append(("table_name", ent.get("table_name"), exp["table_name"]))
    if ent.get("schema") != exp["schema"]:
        errs.append(("schema", ent.get("schema"), exp["schema"]))
    rc = ent.get("columns")
    if not isinstance(rc, list):
        return errs + [("columns", rc, "list")]
    names = [c.get("name") if isinstance(c, dict) else c for c in rc]
    enames = [c["name"] for c in exp["columns"]]
    if names != enames:
        errs.append(("column_names", names, enames))
        return errs
    for c, e in zip(rc, exp["columns"]):
        for k in fields:
            v = c.get(k, "<missing>")
            ev = e[k]
            if k == "references":
                v = norm_ref(v)
            if k == "default" and isinstance(v, str) and isinstance(ev, str) and v.upper() == "NULL" and ev.upper() == "NULL":
                continue
            if not _same(v, ev):
                errs.append(("column %s.%s" % (e["name"], k), c.get(k, "<missing>"), ev))
        for k in extra_column_keys:
            if k in e and c.get(k, "<missing>") != e[k]:
                errs.append(("column %s.%s" % (e["name"], k), c.get(k, "<missing>"), e[k]))
    if ent.get("primary_key") != exp["primary_key"]:
        errs.append(("primary_key", ent.get("primary_key"), exp["primary_key"]))
    if check_constraints:
        got = ent.get("constraints") or {}
        got = {k: v for k, v in got.items() if v}
        if got != exp["constraints"]:
            errs.append(("constraints", got, exp["constraints"]))
        if ent.get("checks") != exp["checks"]:
            errs.append(("checks", ent.get("checks"), exp["checks"]))
    for k in ("if_not_exists", "replace"):
        if k in exp and ent.get(k) != exp[k]:
            errs.append((k, ent.get(k), exp[k]))
    return errs


# --------------------------------------------------------------------------- random generation
def gen_ref_opt(rng):
    return {"k": "ref", "cname": rng.choice([None, None, None, "fk_inline", "FK_In2"]), "schema": rng.choice([None, None, "s1", "Ref_S"]), "table": rng.choice(["other", "Parent", "p2", '"dim.customer"']),
            "column": rng.choice(["id", "k", "Code"]), "on_delete": rng.choice(ACTIONS), "on_update": rng.choice(ACTIONS[:3]), "deferrable": rng.choice(DEFERRABLE)}


def gen_opt(rng, kind, colname):
    if kind == "null":
        return {"k": rng.choice(["notnull", "notnull", "null"])}
    if kind == "default":
        toks, exp = rng.choice(DEFAULTS)
        return {"k": "default", "toks": toks, "exp": exp}
    if kind == "pk":
        return {"k": "pk"}
    if kind == "unique":
        return {"k": "unique"}
    if kind == "ref":
        return gen_ref_opt(rng)
    if kind == "check":
        return {"k": "check", "col": colname, "op": rng.choice([">", "<", ">=", "<>"]), "val": rng.randint(0, 99), "fn": rng.choice(CHECK_FNS)}
    if kind == "comment":
        return {"k": "comment", "text": rng.choice(["'c'", "'a comment'", "'Col: x'"])}
    if kind == "autoinc":
        return {"k": "autoinc", "word": rng.choice(["AUTO_INCREMENT", "AUTOINCREMENT"])}
    if kind == "collate":
        return {"k": "collate", "name": rng.choice(["utf8_bin", "Latin1_General_CI_AS", '"C"'])}
    raise ValueError(kind)


CORE_OPT_KINDS = ["null", "default", "pk", "unique", "ref"]
TRICKY_P = 0.25      # share of column names taken verbatim from the calibrated tricky vocabulary (vf.gen.vocab)


def gen_column(rng, i, allow_pk=True, kinds=CORE_OPT_KINDS, max_opts=4, name=None):
    name = name or (rng.choice(PLAIN_NAMES) + str(i))
    ty = rng.choice(CORE_TYPES)
    pool = [k for k in kinds if allow_pk or k != "pk"]
    rng.shuffle(pool)
    n = rng.randint(0, min(max_opts, len(pool)))
    opts = [gen_opt(rng, k, name) for k in pool[:n]]
    return make_column(name, ty, opts)


def gen_table(rng, k, ncols=None, clauses=False, schema_choices=(None, "dev", "Sch"), max_cols=8, kinds=CORE_OPT_KINDS):
    n = ncols or rng.randint(1, max_cols)
    cols = []
    has_pk = False
    tricky = pick_names(rng, n, p=TRICKY_P)
    for i in range(n):
        c = gen_column(rng, i, allow_pk=not has_pk, kinds=kinds, name=tricky[i])
        if any(o["k"] == "pk" for o in c["opts"]):
            has_pk = True
        cols.append(c)
    items = [("col", c) for c in cols]
    tname = "tbl%d" % k
    if rng.random() < TRICKY_P / 2:
        tname = pick_names(rng, 1, p=1.0, taken=[c["name"] for c in cols])[0] or tname
        tname = tname + "_%d" % k if k else tname            # keep table names of one script distinct
    t = {"schema": rng.choice(list(schema_choices)), "name": tname,
         "prefix": rng.choice(["plain", "plain", "plain", "if_not_exists", "or_replace"]), "items": items}
    if clauses:
        add_clauses(rng, t, has_pk)
    return t


def add_clauses(rng, t, has_pk, max_clauses=5, position="after_first"):
    cols = [it for kind, it in t["items"] if kind == "col"]
    names = [c["name"] for c in cols]
    has_ref = {c["name"] for c in cols if any(o["k"] == "ref" for o in c["opts"])}
    kinds = ["pk", "cpk", "uq", "cuq", "ck", "cck", "fk", "cfk"]
    n = rng.randint(0, max_clauses)
    made = []
    cn = 0
    for kd in [rng.choice(kinds) for _ in range(n)]:
        m = rng.randint(1, min(4, len(names)))
        cs = rng.sample(names, m)
        cn += 1
        if kd in ("pk", "cpk"):
            if has_pk:
                continue
            has_pk = True
            cl = {"kind": "pk", "cols": cs, "name": ("pk_%d" % cn) if kd == "cpk" else None}
            if rng.random() < 0.35:
                cl["orders"] = [rng.choice([None, "ASC", "DESC"]) for _ in cs]
            if rng.random() < 0.2:
                cl["modifier"] = rng.choice(["CLUSTERED", "NONCLUSTERED"])
            made.append(cl)
        elif kd in ("uq", "cuq"):
            made.append({"kind": "unique", "cols": cs, "name": ("uq_%d" % cn) if kd == "cuq" else None})
        elif kd in ("ck", "cck"):
            made.append({"kind": "check", "col": cs[0], "op": rng.choice([">", "<", ">="]), "val": rng.randint(0, 99), "fn": rng.choice(CHECK_FNS),
                         "name": ("ck_%d" % cn) if kd == "cck" else None})
        else:
            if kd == "fk":
                cs = [c for c in cs if c not in has_ref]
                if not cs:
                    continue
                has_ref.update(cs)
            made.append({"kind": "fk", "cols": cs, "name": ("fk_%d" % cn) if kd == "cfk" else None,
                         "ref_schema": rng.choice([None, "s"]), "ref_table": rng.choice(["p", "Parent2", '"dim.shop"']),
                         "ref_cols": ["k%d" % i for i in range(len(cs))],
                         "on_delete": rng.choice(ACTIONS[:3]), "on_update": rng.choice(ACTIONS[:3]), "deferrable": rng.choice(DEFERRABLE)})
    # place clauses: anywhere after the first column
    items = list(t["items"])
    for cl in made:
        if position == "end":
            pos = len(items)
        else:
            pos = rng.randint(1, len(items))
            # a single-column UNIQUE clause must not precede its column (K7) in the plain generator
            if cl["kind"] == "unique" and not cl.get("name") and len(cl["cols"]) == 1:
                idx = [i for i, (kind, it) in enumerate(items) if kind == "col" and it["name"] == cl["cols"][0]][0]
                pos = rng.randint(idx + 1, len(items))
        items.insert(pos, ("clause", cl))
    t["items"] = items
    return t


def all_opt_orders(kinds, max_len):
    for n in range(0, max_len + 1):
        for sub in itertools.permutations(kinds, n):
            yield sub
