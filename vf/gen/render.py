"""Token-list statements and the layout renderer.

A statement is a list of tokens (kind, text):
  K  keyword of the parser (its letter case is a *layout freedom*)
  I  identifier            (verbatim; case and delimiters are content)
  T  type name / value word such as CASCADE, int, InnoDB (verbatim)
  L  quoted literal        (verbatim)
  N  number                (verbatim)
  P  punctuation  ( ) , . ; =
The canonical rendering puts one blank between words, none before , ) ; . and none after ( and .
Layout freedoms (property C05): keyword case per keyword, separator per gap, line breaks.
"""

LINE_START_WORDS = {"CREATE", "ALTER", "DROP", "SET", "GO", "USE", "INSERT", "GRANT", "DELETE"}


def K(*words):
    out = []
    for w in words:
        for x in w.split():
            out.append(("K", x))
    return out


def I(x):
    return [("I", x)]


def T(x):
    return [("T", x)]


def L(x):
    return [("L", x)]


def N(x):
    return [("N", str(x))]


def P(x):
    return [("P", x)]


def dotted(*parts):
    out = []
    for p in parts:
        if p is None:
            continue
        if out:
            out += P(".")
        out += I(p)
    return out


def comma_list(items):
    out = []
    for i, it in enumerate(items):
        if i:
            out += P(",")
        out += it
    return out


def paren(items):
    return P("(") + items + P(")")


def _gap_kind(prev, tok):
    """'glue' = must be empty, 'opt' = separator optional, 'need' = at least one white-space char"""
    pk, pt = prev
    k, t = tok
    if t == "." or pt == ".":
        return "glue"
    if k == "P" or pk == "P":
        return "opt"
    return "need"


def canonical_sep(prev, tok):
    pk, pt = prev
    k, t = tok
    g = _gap_kind(prev, tok)
    if g == "glue":
        return ""
    if k == "P" and t in (",", ")", ";"):
        return ""
    if pk == "P" and pt == "(":
        return ""
    if k == "P" and t == "(" and pk in ("T",):
        return ""   # varchar(10)
    return " "


def render(tokens, layout=None, rng=None):
    """layout=None: canonical single line.  Otherwise a dict of freedoms:
       case: None|'upper'|'lower'|'cap'|'random'   (applied per keyword)
       ws:   True -> random separators (1..3 blanks, TAB, none where optional)
       nl:   probability of a line break at an eligible gap
       crlf: True -> every line end is CRLF; 'mixed' -> some
       indent: True -> random indentation after a break
       break_before_quote: allow a literal as the very first character of a line (known finding K5)
    """
    layout = layout or {}
    out = []
    seps = []
    prev = None
    for i, tok in enumerate(tokens):
        k, t = tok
        w = t
        if k == "K" and layout.get("case"):
            c = layout["case"]
            if c == "random":
                c = rng.choice(["upper", "lower", "cap", "mixed"])
            if c == "upper":
                w = t.upper()
            elif c == "lower":
                w = t.lower()
            elif c == "cap":
                w = t.capitalize()
            elif c == "mixed":
                w = "".join(rng.choice([ch.upper(), ch.lower()]) for ch in t)
        if prev is None:
            out.append(w)
            seps.append("")
            prev = tok
            continue
        g = _gap_kind(prev, tok)
        sep = canonical_sep(prev, tok)
        if g != "glue" and (layout.get("ws") or layout.get("nl")):
            opts = []
            if layout.get("ws"):
                opts += [" ", "  ", "   ", "\t", " \t"]
                if g == "opt":
                    opts += ["", "", ""]
            else:
                opts += [sep]
            sep = rng.choice(opts)
            quote = k == "L" or t[:1] == "'"
            if quote and "\t" in sep and not layout.get("break_before_quote") and i >= 2 and seps[-1] == "" and tokens[i - 2][0] == "P" and tokens[i - 2][1] in ",()":
                # word glued to a separator, then TAB, then a quote (')DEFAULT<TAB>'x''): the pinned re-spacing takes the separator for a
                # part of the literal - known finding C05:newline-before-quote (its TAB branch); every other TAB before a literal is generated
                sep = " "
            nlp = layout.get("nl") or 0
            can_break = t.upper() not in LINE_START_WORDS and not (k == "P" and t == ";")
            if nlp and can_break and rng.random() < nlp:
                brk = rng.choice(["\n", "\n", " \n", "\n\n", "\n \n"]) if layout.get("blank_lines", True) else "\n"
                ind = rng.choice(["", "  ", "    ", "\t"]) if layout.get("indent", True) else ""
                if quote and not ind and not layout.get("break_before_quote"):
                    # a quote as the very first character of a line: known finding C05:newline-before-quote (calibrated: a TAB or an
                    # indented continuation line before a literal are read correctly and are generated)
                    ind = rng.choice(["  ", "\t", "    "]) if layout.get("indent", True) else None
                if ind is not None:
                    sep = brk + ind
        out.append(sep + w)
        seps.append(sep)
        prev = tok
    text = "".join(out)
    return text


def finish_script(stmts_text, layout=None, rng=None):
    """join rendered statements (each already ends with ';') into a script"""
    layout = layout or {}
    text = "\n".join(stmts_text) + "\n"
    if layout.get("crlf") is True:
        text = text.replace("\n", "\r\n")
    elif layout.get("crlf") == "mixed" and rng is not None:
        text = "".join((ch if ch != "\n" or rng.random() < 0.5 else "\r\n") for ch in text)
    return text


def multiline_table(head_tokens, item_token_lists, tail_tokens, indent="  "):
    """the common hand-written layout: one column / clause per line"""
    lines = [render(head_tokens) + " ("]
    for i, it in enumerate(item_token_lists):
        lines.append(indent + render(it) + ("," if i < len(item_token_lists) - 1 else ""))
    tail = render(tail_tokens) if tail_tokens else ""
    lines.append(")" + ((" " + tail) if tail else "") + ";")
    return "\n".join(lines)
