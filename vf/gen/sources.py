"""One pool of DDL scripts for the output-layer checks (C10 C12 C13 C14 C19 C20): every generator the content checks own is
re-used as a *source of scripts* (no reference model needed there - those checks are relational or structural)."""


def any_script(rng, kinds=None, exclude_mixed=()):
    """-> (source name, ddl text).  Sources: statement mixes, core/clause tables in several layouts, ALTER/INDEX histories,
    dialect clause tables, nested/parameterised types, hostile identifiers, entity declarations, sequences, commented scripts."""
    from vf.gen import schema as S
    from vf.gen import scripts as GS
    from vf.gen.render import finish_script, render
    kinds = kinds or ["mixed", "mixed", "mixed", "tables", "tables", "history", "dialect", "types", "idents", "entities", "sequences", "commented"]
    k = rng.choice(kinds)
    if k == "mixed":
        mk = [x for x in GS.all_kinds() if x not in exclude_mixed] if exclude_mixed else None
        return k, GS.gen_mixed(rng, kinds=mk, with_comments=0.2)["text"]
    if k == "tables":
        ts = [S.gen_table(rng, q, max_cols=6, clauses=True) for q in range(rng.randint(1, 3))]
        layout = rng.choice([None, {"case": "lower"}, {"case": "random", "ws": True}])
        return k, finish_script([render(S.table_tokens(t), layout, rng) for t in ts])
    if k == "history":
        from vf.checks import c04
        return k, "\n".join(c04.gen_history(rng)["stmts"]) + "\n"
    if k == "dialect":
        from vf.checks import c11
        cat = c11.catalogue(rng)
        dialect = rng.choice(sorted(cat))
        clauses = c11.pick(rng, cat, dialect, rng.randint(1, 4))
        last = rng.choice(["b varchar(10)", "b int NOT NULL", "b decimal(10,2) DEFAULT 0", "b date"])
        return k, c11.build(last, clauses)[1]
    if k == "types":
        from vf.checks import c09
        t = c09.gen_angle(rng, rng.randint(1, 3))
        text = c09.render_angle(t, rng, rng.choice(c09.STYLES)) if t[0] != "leaf" else rng.choice(c09.SIZED)[0]
        return k, c09.build(text, rng.randrange(3), rng.choice(c09.OPTIONS)[0])
    if k == "idents":
        from vf.checks import c06
        return k, c06.gen_script(rng)["ddl"]
    if k == "entities":
        from vf.checks import c18
        c = c18.build_case(rng, rng.choice(sorted(c18.GENS)), "src")
        return k, c["ddl"]
    if k == "sequences":
        from vf.checks import c17
        return k, c17.build_case(rng, [tuple(rng.sample(c17.SLOTS, rng.randint(0, 4))) for _ in range(rng.randint(1, 2))], "src")["ddl"]
    if k == "commented":
        from vf.checks import c08
        return k, "\n".join(c08.random_case(rng)["lines"]) + "\n"
    raise ValueError(k)
