"""Word echo: scripts that use a word as an IDENTIFIER (IDENT_USES) and scripts that use the same word as a KEYWORD (USES).

Used by the independence checks (C14, C15): after some parser object has seen a word in a name position, every other object must
still read that word as the keyword it is - whatever the parser keeps about words (token tables, caches) must not be taught by inputs.
Every USES script was calibrated to yield a non-empty result on the pinned tree.
"""

# word -> (script that uses it as a keyword, output mode or None)
USES = {
 "OPTIONS": ("CREATE TABLE p.d.t (a INT64) OPTIONS(description='x');", "bigquery"),
 "COMMENT": ("CREATE TABLE t (a int COMMENT 'c') COMMENT 'tbl';", "hql"),
 "TAG": ("CREATE TABLE t (a int) WITH TAG (cost='x');", "snowflake"),
 "DEFAULT": ("CREATE TABLE t (a int) ENGINE=InnoDB DEFAULT CHARSET=utf8;", "mysql"),
 "TABLESPACE": ("CREATE TABLE t (a int) TABLESPACE users;", None),
 "PARTITION": ("CREATE TABLE t (a int, b date) PARTITION BY b;", "bigquery"),
 "PARTITIONED": ("CREATE TABLE t (a int) PARTITIONED BY (b date);", "hql"),
 "CLUSTER": ("CREATE TABLE t (a int) CLUSTER BY (a);", "snowflake"),
 "CLUSTERED": ("CREATE TABLE t (a int) CLUSTERED BY (a) INTO 4 BUCKETS;", "hql"),
 "STORED": ("CREATE TABLE t (a int) STORED AS PARQUET;", "hql"),
 "LOCATION": ("CREATE EXTERNAL TABLE t (a int) LOCATION 's3://b/p';", "hql"),
 "ENGINE": ("CREATE TABLE t (a int) ENGINE=InnoDB;", "mysql"),
 "INHERITS": ("CREATE TABLE t (a int) INHERITS (base);", "postgres"),
 "TBLPROPERTIES": ("CREATE TABLE t (a int) TBLPROPERTIES ('k'='v');", "hql"),
 "ROW": ("CREATE TABLE t (a int) ROW FORMAT DELIMITED FIELDS TERMINATED BY ',';", "hql"),
 "WITH": ("CREATE TABLE t (a int) WITH (DATA_COMPRESSION = PAGE);", "mssql"),
 "ON": ("CREATE TABLE t (a int) ON [PRIMARY];", "mssql"),
 "TEXTIMAGE_ON": ("CREATE TABLE t (a int) ON [PRIMARY] TEXTIMAGE_ON [PRIMARY];", "mssql"),
 "USING": ("CREATE TABLE t (a int) USING parquet;", "spark_sql"),
 "DISTSTYLE": ("CREATE TABLE t (a int) DISTSTYLE ALL;", "redshift"),
 "SORTKEY": ("CREATE TABLE t (a int) SORTKEY (a);", "redshift"),
 "DISTKEY": ("CREATE TABLE t (a int) DISTKEY (a);", "redshift"),
 "ENCODE": ("CREATE TABLE t (a int ENCODE zstd);", "redshift"),
 "CHECK": ("CREATE TABLE t (a int CHECK (a > 0), CONSTRAINT c CHECK (a < 9));", None),
 "REFERENCES": ("CREATE TABLE t (a int REFERENCES p (q) ON DELETE CASCADE);", None),
 "UNIQUE": ("CREATE TABLE t (a int UNIQUE, b int, UNIQUE (b));", None),
 "KEY": ("CREATE TABLE t (a int, PRIMARY KEY (a), KEY ix (a));", "mysql"),
 "INDEX": ("CREATE TABLE t (a int);\nCREATE UNIQUE INDEX ix ON t (a DESC);", None),
 "SEQUENCE": ("CREATE SEQUENCE s.q INCREMENT BY 2 START WITH 5 NO MAXVALUE CACHE 10;", None),
 "START": ("CREATE SEQUENCE q START 3 INCREMENT 2;", None),
 "CACHE": ("CREATE SEQUENCE q CACHE NOORDER;", None),
 "MINVALUE": ("CREATE SEQUENCE q NO MINVALUE MAXVALUE 9;", None),
 "COLLATE": ("CREATE TABLE t (a varchar(5) COLLATE utf8_bin NOT NULL);", None),
 "GENERATED": ("CREATE TABLE t (a int GENERATED ALWAYS AS IDENTITY, b int);", None),
 "AUTOINCREMENT": ("CREATE TABLE t (a int AUTOINCREMENT, b int AUTO_INCREMENT);", None),
 "NULL": ("CREATE TABLE t (a int NOT NULL, b int NULL DEFAULT NULL);", None),
 "EXISTS": ("CREATE TABLE IF NOT EXISTS t (a int);", None),
 "TEMPORARY": ("CREATE TEMPORARY TABLE t (a int);", "hql"),
 "EXTERNAL": ("CREATE EXTERNAL TABLE t (a int) STORED AS ORC;", "hql"),
 "REPLACE": ("CREATE OR REPLACE TABLE t (a int);", None),
 "LIKE": ("CREATE TABLE t LIKE s.o;\nCREATE TABLE u (LIKE o);", None),
 "CLONE": ("CREATE TABLE t CLONE src;", "snowflake"),
 "ENUM": ("CREATE TYPE e AS ENUM ('a', 'b');", None),
 "SCHEMA": ("CREATE SCHEMA IF NOT EXISTS s AUTHORIZATION joe;", None),
 "DATABASE": ("CREATE DATABASE d;", None),
 "ALTER": ("CREATE TABLE t (a int, b int);\nALTER TABLE t ADD CONSTRAINT fk FOREIGN KEY (a) REFERENCES p (q);\nALTER TABLE t DROP COLUMN b;", None),
 "ADD": ("CREATE TABLE t (a int);\nALTER TABLE t ADD c varchar(3) NOT NULL;", None),
 "RENAME": ("CREATE TABLE t (a int);\nALTER TABLE t RENAME COLUMN a TO z;", None),
 "MODIFY": ("CREATE TABLE t (a int);\nALTER TABLE t MODIFY COLUMN a bigint;", None),
 "ARRAY": ("CREATE TABLE t (a ARRAY<STRUCT<x INT, y STRING>>, b MAP<STRING, INT>);", "hql"),
 "SKEWED": ("CREATE TABLE t (a int) SKEWED BY (a) ON (1, 2);", "hql"),
 "TERMINATED": ("CREATE TABLE t (a int) ROW FORMAT DELIMITED FIELDS TERMINATED BY ',' LINES TERMINATED BY '\\n';", "hql"),
 "SERDE": ("CREATE TABLE t (a int) ROW FORMAT SERDE 'x.y.Z' WITH SERDEPROPERTIES ('a'='b');", "hql"),
 "ENCRYPT": ("CREATE TABLE t (a varchar2(9) ENCRYPT USING 'AES256' SALT);", "oracle"),
 "STORAGE": ("CREATE TABLE t (a int) STORAGE (INITIAL 64K NEXT 1M);", "oracle"),
 "ORGANIZE": ("CREATE TABLE t (a int) ORGANIZE BY ROW;", "ibm_db2"),
 "DATA_RETENTION_TIME_IN_DAYS": ("CREATE TABLE t (a int) DATA_RETENTION_TIME_IN_DAYS = 3;", "snowflake"),
 "PERIOD": ("CREATE TABLE t (a datetime2 GENERATED ALWAYS AS ROW START, b datetime2 GENERATED ALWAYS AS ROW END, PERIOD FOR SYSTEM_TIME (a, b));", "mssql"),
}

# scripts that use {W} where a name is expected (some of them are not parseable for some words: their own result is irrelevant here)
IDENT_USES = [
    "CREATE TABLE x LIKE {W};", "CREATE TABLE x (LIKE {W});", "CREATE TABLE {W} (a int);", "CREATE TABLE t ({W} int, b int);",
    "CREATE TABLE s.{W} (a int) ;", "CREATE SEQUENCE {W} START 1;", "CREATE TABLE t (a int);\nALTER TABLE t ADD {W} int;",
    "CREATE TABLE t (a int);\nCREATE INDEX {W} ON t (a);", "CREATE SCHEMA {W};", "CREATE TYPE {W} AS ENUM ('a');", "CREATE DOMAIN {W} AS int;",
    "CREATE DATABASE {W};", "CREATE TABLE t (a {W});", "CREATE TABLE t (a int DEFAULT {W});", "CREATE TABLE t (a int REFERENCES {W} (id));",
    "CREATE TABLE t (a int, CONSTRAINT {W} UNIQUE (a));", "CREATE TABLE t (a int) TABLESPACE {W};", "CREATE TABLE t CLONE {W};",
    "CREATE TABLE x (LIKE src) {W} (fillfactor=70);", "CREATE TABLE x LIKE src {W} 'abc';", "CREATE TABLE x (LIKE s.src) {W};",
    "ALTER TABLE {W} ADD c int;", "DROP TABLE {W};", 'CREATE TABLE "{W}" ("{W}" int);', "CREATE TABLE x LIKE {W}.{W};",
]


def spell(word, how):
    return {"upper": word.upper(), "lower": word.lower(), "cap": word.capitalize()}[how]
