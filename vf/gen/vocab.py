"""Shared vocabularies of *ordinary but tricky* material, calibrated on the pinned tree (every entry parses correctly there in
every position it is used in: column single-/multi-line and at column 0 of a line, key lists, table / schema / sequence names,
ALTER ADD and index column lists).  They exist because independent seeded defects showed the plain generators' names and numbers
were too tame: names that merely *contain* a keyword (collateral, settings, created_at, dropbox_seq), SQL words that are not
grammar keywords (begin, end, commit, select, update ...), names with # $ @, decimals with several integer digits."""
import functools

SQL_WORDS = ("begin end commit rollback update select merge call exec declare truncate show describe explain analyze vacuum lock start "
             "transaction savepoint release revoke deny print return while loop case when then else from where group having limit offset "
             "union values into view function procedure trigger user role session system date time timestamp year month day hour minute "
             "second zone level value name text number size count status state position password owner members language version source "
             "target result data first last next prior only all any some between is exists top percent rows range current before after "
             "each row statement new old begin_ts end_at").split()
SPECIAL = ["order#", "a$b", "x@y", "col#1", "amt$", "_lead", "n1_2", "$amount", "tbl#", "a#b#c", "x$", "@var", "a-b", "a:b", "a~b", "a/b"]
# not usable as ordinary names on the pinned tree (documented reasons): sort-direction words inside key lists; the ignored-line words
# and the MySQL comment character at the start of a line (C05's proviso); one odd derived name
EXCLUDED = {"asc", "desc", "go", "use", "insert", "grant", "delete", "#tmp", "array_key"}


def grammar_keywords():
    from simple_ddl_parser import tokens as tok
    return sorted(set(tok.tokens) - {"ID", "DOT", "STRING_BASE", "DQ_STRING", "LP", "RP", "LT", "RT", "COMMAT", "EQ", "COMMA"})


@functools.lru_cache(maxsize=None)
def tricky_names():
    kws = grammar_keywords()
    kwset = set(kws)
    out = list(SQL_WORDS) + [w.upper() for w in SQL_WORDS[:30]] + [w.capitalize() for w in SQL_WORDS[:30]]
    for k in kws:
        out += [k.lower() + "s", k.lower() + "_id", k.capitalize() + "X", "x_" + k.lower(), k.lower() + "ral", k.upper() + "_KEY", k.lower() + "1"]
    out += SPECIAL
    seen, res = set(), []
    for w in out:
        if w.upper() in kwset or w.lower() in EXCLUDED or w in seen:
            continue
        seen.add(w)
        res.append(w)
    return tuple(res)


def pick_names(rng, n, p=0.3, taken=()):
    """n names for one table: each is a tricky name with probability p (never twice, case-insensitively), else None (caller's default)"""
    voc = tricky_names()
    used = {t.lower() for t in taken}
    out = []
    for _ in range(n):
        nm = None
        if rng.random() < p:
            for _try in range(5):
                c = voc[rng.randrange(len(voc))]
                if c.lower() not in used:
                    nm = c
                    used.add(c.lower())
                    break
        out.append(nm)
    return out


# unquoted numeric values (reported as written unless purely digits)
DECIMALS = ["19.75", "100.00", "10.5", "0.5", "1.5", "3.14159", "12345.678", "99.9", "250.0", "1000000.01", "0.001", "42.0"]
# a signed decimal is split by the lexer at its point and the whole table is lost on the pinned tree (known finding C01:signed-decimal-default)
SIGNED_DECIMALS = ["-1.5", "-0.5", "+2.5", "-100.25"]
