"""pytest plugin: record every DDLParser construction/run made by the repository's own tests.
The recorded (DDL, constructor kwargs, run kwargs) triples are the regression corpus."""
import json
import os

from simple_ddl_parser import parser as _p

REC = []
_orig_init = _p.Parser.__init__
_orig_run = _p.Parser.run


def _init(self, content, *a, **kw):
    self._h_content = content
    self._h_kw = dict(kw)
    self._h_a = list(a)
    return _orig_init(self, content, *a, **kw)


def _run(self, **kw):
    rec = {
        "ddl": getattr(self, "_h_content", None),
        "init_args": [x for x in getattr(self, "_h_a", []) if isinstance(x, (bool, int, str, type(None)))],
        "init_kw": {k: (v if isinstance(v, (bool, int, str, type(None))) else repr(v)) for k, v in getattr(self, "_h_kw", {}).items()},
        "run_kw": {k: (v if isinstance(v, (bool, int, str, type(None))) else repr(v)) for k, v in kw.items()},
    }
    try:
        r = _orig_run(self, **kw)
        rec["ok"] = True
        return r
    except Exception as e:
        rec["ok"] = False
        rec["exc"] = repr(e)[:200]
        raise
    finally:
        REC.append(rec)


_p.Parser.__init__ = _init
_p.Parser.run = _run


def pytest_sessionfinish(session, exitstatus):
    with open(os.environ["HARVEST_OUT"], "w") as f:
        json.dump(REC, f)
