"""Mixed scripts for the output-layer checks (C10 C12 C13 C14 C15 C16 C20): random mixes of every
supported statement kind, with the *abstract* entity kind of every head statement (the oracle for
C13 reads that, never the code's key map)."""
from vf.gen import stmts as G

ENTITY_KIND = {
    "seq": "sequences", "seq_ml": "sequences", "type_enum": "types", "type_obj": "types", "type_tab": "types", "domain": "domains",
    "schema": "schemas", "schema_auth": "schemas", "schema_comment": "schemas", "db": "databases", "tspace": "tablespaces",
    "tspace_tmp": "tablespaces", "set": "ddl_properties",
}
EXTRA = {
    "clone_db": ["CREATE DATABASE mytestdb_clone{i} CLONE mytestdb;"],
    "clone_schema": ["CREATE SCHEMA mytestschema_clone{i} CLONE testschema;"],
    "table_comment": ["CREATE TABLE tc{i} (a int, b int COMMENT 'col') COMMENT 'table c';"],
    "set2": ["SET statement_timeout = 0;"],
    "set_empty": ["SET hivevar:suffix{i}=;"],                     # value '' (a falsy marker value)
    "set_empty2": ["SET x{i} = ;", "SET mapred.job.name{i} = 0;"],
    "fk_multi": ["CREATE TABLE fm{i} (a int, b int, c int);", "ALTER TABLE fm{i} ADD CONSTRAINT fkm{i} FOREIGN KEY (a, b) REFERENCES sch.p (x, y);",
                 "CREATE UNIQUE INDEX ixm{i} ON fm{i} (c DESC, a);"],
    "alter_more": ["CREATE TABLE s.am{i} (a int, b int, c varchar(5));", "ALTER TABLE s.am{i} MODIFY COLUMN b bigint;", "ALTER TABLE s.am{i} DROP COLUMN c;",
                   "ALTER TABLE s.am{i} ADD CONSTRAINT df{i} DEFAULT 7 FOR a;", "ALTER TABLE s.am{i} ADD CONSTRAINT pk{i} PRIMARY KEY (a);"],
    # ALTER ... ADD FOREIGN KEY over columns the table does not declare (they are appended, in the written order)
    "fk_undeclared": ["CREATE TABLE fu{i} (a int, b int);",
                      "ALTER TABLE fu{i} ADD CONSTRAINT fku{i} FOREIGN KEY (region_id, country_id, city_id, zone_id) REFERENCES geo (r, c, ci, z);"],
    # mssql WITH (...) on a key constraint, two different property sets
    "mssql_with": ["CREATE TABLE mw{i} (a int, b int, CONSTRAINT pkw{i} PRIMARY KEY CLUSTERED (a ASC) WITH (PAD_INDEX = OFF, IGNORE_DUP_KEY = OFF) ON [PRIMARY]);"],
    "mssql_with2": ["CREATE TABLE mx{i} (a int, CONSTRAINT pkx{i} PRIMARY KEY CLUSTERED (a ASC) WITH (STATISTICS_NORECOMPUTE = ON, ALLOW_ROW_LOCKS = ON, ALLOW_PAGE_LOCKS = OFF));"],
    # the key clause spells its columns with another quoting than their definitions
    "pk_requoted": ["CREATE TABLE pq{i} (id int, `line` int, note text, PRIMARY KEY (`id`, line));"],
    # a generic trailing '<word> <value>' pair whose word happens to be a marker key of another entity kind
    "seq_value_pair": ["CREATE SEQUENCE sv{i} START WITH 1 INCREMENT BY 1 value 100;"],
    "seq_comments_pair": ["CREATE SEQUENCE sc{i} START WITH 1 comments 3;"],
    "type_value_pair": ["CREATE TYPE tv{i} AS ENUM ('red', 'green') value 7;"],
    # clauses after a LIKE body
    "like_cluster": ["CREATE TABLE lk{i} LIKE s CLUSTER BY (a, b);"],
    "like_partition": ["CREATE TABLE lp{i} (LIKE s) PARTITION BY RANGE (a);"],
    "obj_params": ["CREATE TYPE s.site{i} AS OBJECT (id int, geom geometry(Point, 4326), name varchar(10) COMMENT 'pk');"],
    "bq_dq_hash": ["CREATE TABLE bh{i} (a int OPTIONS(description=\"ticket # 42 in tracker\"), b varchar(9) DEFAULT \"dq # text\") OPTIONS(description=\"rows # per day\");"],
    "stored_single": ["CREATE TABLE ss{i} (a int) STORED AS INPUTFORMAT 'org.x.In';", "CREATE TABLE st{i} (a int) STORED AS OUTPUTFORMAT 'org.x.Out' LOCATION '/x';"],
    # hive serde with an input.regex property (the regex is kept on the parser object's lexer while the statement is parsed)
    "hql_serde_regex": ["CREATE EXTERNAL TABLE sr{i} (a string, b string)\nROW FORMAT SERDE 'org.apache.hadoop.hive.serde2.RegexSerDe'\nWITH SERDEPROPERTIES (\n  \"input.regex\" = \"([0-9]+);(.*)\"\n)\nSTORED AS TEXTFILE;"],
    # three-part (project-qualified) names mixed with two-part references to the same table
    "bq_project_alter": ["CREATE TABLE proj.ds.bq{i} (a int, b int);", "ALTER TABLE ds.bq{i} ADD c int;", "CREATE INDEX ix_bq{i} ON ds.bq{i} (a);"],
    "bq_project_alter2": ["CREATE TABLE ds.bp{i} (a int, b int);", "ALTER TABLE proj.ds.bp{i} ADD CONSTRAINT fkbp{i} FOREIGN KEY (a, b) REFERENCES p2.ds2.o (x, y);",
                          "CREATE UNIQUE INDEX ux_bp{i} ON ds.bp{i} (b DESC);"],
    # a literal that holds '=' followed, on the same line, by options written key=value
    "eq_literal_option": ["CREATE TABLE eq{i} (a varchar(20) DEFAULT 'k=v', b int DEFAULT 5) COMMENT='x';"],
    "eq_literal_option2": ["CREATE TABLE er{i} (a varchar(20) default 'k=v', b int) ENGINE=InnoDB DEFAULT CHARSET=utf8;"],
    # an unnamed compound UNIQUE over long column names (the generated constraint name is longer than 63 characters)
    "long_unique": ["CREATE TABLE lu{i} (customer_identifier_for_the_billing_period int, billing_period_start_date_in_the_local_zone date, "
                    "UNIQUE (customer_identifier_for_the_billing_period, billing_period_start_date_in_the_local_zone));"],
    # SET with variable names that start with '@'
    "set_at": ["SET @batch_id = 42;", "SET @@session.sql_mode = ANSI;"],
    # a database with a tablespace clause (an entity that also carries a tablespace record), a SET with a value list
    "db_tablespace": ["CREATE DATABASE dbt{i} TABLESPACE ts{i};"],
    "set_list": ["SET search_path = public, pg_catalog;"],
    # a key column renamed by ALTER; a table whose name starts with '#'
    "rename_pk": ["CREATE TABLE rp{i} (listid int, sellerid int, PRIMARY KEY (listid, sellerid));", "ALTER TABLE rp{i} RENAME COLUMN listid TO listing_id;"],
    "hash_table": ["CREATE TABLE #stage{i} (a int);", "CREATE TABLE dbo.#tmp{i} (b int);"],
    # hive bucketing / skew clauses (fields of the HQL class itself)
    "hql_buckets": ["CREATE TABLE hb{i} (a int, b string) CLUSTERED BY (a) INTO 32 BUCKETS SKEWED BY (a) ON (1, 2) STORED AS ORC;"],
    # the same table id twice (DROP + CREATE, two spellings, a TEMPORARY twin) together with ALTER / INDEX statements that address it
    "redefine_alter": ["DROP TABLE rd{i};", "CREATE TABLE rd{i} (id int, amount int);", "ALTER TABLE rd{i} ADD CONSTRAINT fk_c{i} FOREIGN KEY (id) REFERENCES p (k);"],
    "redefine_index": ["CREATE TABLE Ru{i} (a int);", "CREATE TABLE ru{i} (a int, b int);", "CREATE INDEX ix_ru{i} ON ru{i} (a);"],
    "temp_twin": ["CREATE TABLE tw{i} (id int, customer int);", "CREATE TEMPORARY TABLE tw{i} (id int, note int);", "CREATE INDEX tw_ix{i} ON tw{i} (id);",
                  "ALTER TABLE tw{i} ADD CONSTRAINT ck_tw{i} CHECK (id > 0);"],
    "partition": ["CREATE TABLE pt{i} (a int, b date) PARTITION BY RANGE (b);"],
    "partitioned": ["CREATE TABLE pd{i} (a int, b string) PARTITIONED BY (dt string, hr int);"],
}
EXTRA_KIND = {"set_at": "ddl_properties", "db_tablespace": "databases", "set_list": "ddl_properties", "seq_value_pair": "sequences", "seq_comments_pair": "sequences", "type_value_pair": "types", "obj_params": "types", "clone_db": "databases", "clone_schema": "schemas", "set2": "ddl_properties", "set_empty": "ddl_properties", "set_empty2": "ddl_properties"}


def all_kinds():
    return sorted(G.SUPPORTED) + sorted(EXTRA)


def gen_group(rng, kind, i):
    if kind in EXTRA:
        return [t.replace("{i}", str(i)) for t in EXTRA[kind]]
    return G.gen_group(rng, kind, i)


def entity_kind(kind):
    return ENTITY_KIND.get(kind) or EXTRA_KIND.get(kind) or "tables"


def gen_mixed(rng, n=None, kinds=None, with_unsupported=0.0, with_comments=0.0):
    kinds = kinds or all_kinds()
    n = n or rng.randint(1, 6)
    stmts, ekinds, picked = [], [], []
    uns = G.all_unsupported()
    cn = 0
    for q in range(n):
        k = rng.choice(kinds)
        picked.append(k)
        grp = gen_group(rng, k, q)
        if with_comments and rng.random() < with_comments:
            cn += 1
            r = rng.random()
            if r < 0.4 and "'" not in grp[-1].split("\n")[-1]:
                grp = grp[:-1] + [grp[-1] + " -- cmt%d about %s" % (cn, k)]      # trailing comment (reported)
            elif r < 0.5 and "'" not in grp[-1].split("\n")[-1]:
                grp = grp[:-1] + [grp[-1] + rng.choice([" --", " -- "])]          # trailing comment with an empty / blank text (reported as '' / ' ')
            elif r < 0.6:
                stmts.append("/* cmt%d before %s\n\n   still cmt%d */" % (cn, k, cn))   # block comment with an empty interior line
            else:
                stmts.append("/* cmt%d before %s */" % (cn, k))                 # whole-line block comment (reported)
        stmts.extend(grp)
        ekinds.append(entity_kind(k))
        if rng.random() < 0.06 and len(grp) == 1:
            stmts.extend(grp)                      # the very same statement text once more (a re-runnable script)
            ekinds.append(entity_kind(k))
            picked.append(k)
        if with_unsupported and rng.random() < with_unsupported:
            stmts.append(rng.choice(uns)[1])
    return {"text": G.script(stmts), "kinds": picked, "entity_kinds": ekinds, "n_comments": cn}
