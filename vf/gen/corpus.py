"""Access to the harvested regression corpus (see harvest_plugin.py)."""
import json
import os


def load(snapshot=None):
    snapshot = snapshot or os.environ.get("VF_SNAPSHOT")
    path = os.path.join(snapshot, "corpus.json")
    recs = json.load(open(path))
    seen, out = set(), []
    for r in recs:
        if not isinstance(r.get("ddl"), str):
            continue
        ikw = {k: v for k, v in r.get("init_kw", {}).items() if k in ("normalize_names",)}
        key = (r["ddl"], json.dumps(ikw, sort_keys=True))
        if key in seen:
            continue
        seen.add(key)
        out.append({"ddl": r["ddl"], "init_kw": ikw, "run_kw": {k: v for k, v in r.get("run_kw", {}).items() if k in ("output_mode", "group_by_type")}, "ok": r.get("ok", True)})
    return out
