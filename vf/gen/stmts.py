"""Statement library: supported statement kinds (as *groups*: a head statement followed by the
ALTER / CREATE INDEX statements that target it), the calibrated catalogue of unsupported
statements (each yields [] when silent and raises DDLParserError when loud on the pinned tree),
and the documented 'ignored line' family (GO / USE / INSERT / GRANT / DELETE lines)."""
from vf.gen import schema as S
from vf.gen.render import finish_script, multiline_table, render


def _core_table(rng, i, multiline=None):
    t = S.gen_table(rng, i, max_cols=6, clauses=rng.random() < 0.5)
    t["name"] = "ct%d" % i
    if multiline is None:
        multiline = rng.random() < 0.5
    if multiline:
        return [multiline_table(S.table_head_tokens(t), S.table_item_tokens(t), [])]
    return [render(S.table_tokens(t))]


def _tmpl(*texts):
    def f(rng, i):
        return [t.replace("{i}", str(i)) for t in texts]
    return f


SUPPORTED = {
    "core_table": _core_table,
    "tbl_ml": _tmpl("CREATE TABLE s.t{i} (\n  a int NOT NULL,\n  b varchar(10) DEFAULT 'x'\n);"),
    "tbl_uq": _tmpl("CREATE TABLE t{i} (a int PRIMARY KEY, b decimal(10,2), CONSTRAINT u{i} UNIQUE (a, b));"),
    "tbl_ine": _tmpl("CREATE TABLE IF NOT EXISTS t{i} (\n  a int,\n  b int,\n  PRIMARY KEY (a)\n) ;"),
    "like": _tmpl("CREATE TABLE t{i} LIKE s.other;"),
    "like_paren": _tmpl("CREATE TABLE t{i} (LIKE s.other);"),
    "check": _tmpl("CREATE TABLE t{i} (a int CHECK (a > 0), b int, CHECK (b < 5));"),
    "ccheck": _tmpl("CREATE TABLE t{i} (a int, CONSTRAINT ck{i} CHECK (a IN (1, 2)));"),
    "angle": _tmpl("CREATE TABLE t{i} (a MAP<STRING, ARRAY<INT>>, b STRUCT<x:INT, y:STRING>);"),
    "angle_glued": _tmpl("CREATE TABLE t{i} (a ARRAY<STRING>, b int NOT NULL);"),
    "fk_table": _tmpl("CREATE TABLE t{i} (a int REFERENCES s.p (k) ON DELETE CASCADE, b int, FOREIGN KEY (b) REFERENCES q (k2));"),
    "seq": _tmpl("CREATE SEQUENCE s.q{i} INCREMENT BY 2 START WITH 5 NO MAXVALUE CACHE;"),
    "seq_ml": _tmpl("CREATE SEQUENCE q{i}\n  START 1\n  INCREMENT 1;"),
    "type_enum": _tmpl("CREATE TYPE s.ty{i} AS ENUM ('a', 'b');"),
    "type_obj": _tmpl("CREATE TYPE ty{i} AS OBJECT (x int, y varchar(5));"),
    "type_tab": _tmpl("CREATE TYPE ty{i} AS TABLE (x int NOT NULL);"),
    "domain": _tmpl("CREATE DOMAIN d{i} AS varchar(10);"),
    "schema": _tmpl("CREATE SCHEMA sc{i};"),
    "schema_auth": _tmpl("CREATE SCHEMA IF NOT EXISTS sc{i} AUTHORIZATION joe;"),
    "schema_comment": _tmpl("CREATE SCHEMA sc{i} COMMENT = 'about sc';"),
    "db": _tmpl("CREATE DATABASE db{i};"),
    "tspace": _tmpl("CREATE BIGFILE TABLESPACE ts{i};"),
    "tspace_tmp": _tmpl("CREATE TEMPORARY TABLESPACE tts{i};"),
    "drop": _tmpl("DROP TABLE old{i};"),
    "hql": _tmpl("CREATE EXTERNAL TABLE h{i} (a int, b string) PARTITIONED BY (c int) STORED AS PARQUET LOCATION 's3://x/y';"),
    "hql_ml": _tmpl("CREATE TABLE hm{i} (\n  a int,\n  b string\n)\nROW FORMAT DELIMITED\nFIELDS TERMINATED BY '|'\nSTORED AS TEXTFILE\nTBLPROPERTIES ('k1'='v1');"),
    # a hive serde with an "input.regex" property: the pre-processor keeps the regex on the lexer for the whole script
    "hql_serde": _tmpl("CREATE EXTERNAL TABLE hs{i} (a string, b string)\nROW FORMAT SERDE 'org.apache.hadoop.hive.serde2.RegexSerDe'\nWITH SERDEPROPERTIES (\n  \"input.regex\" = \"([0-9]+);(.*)\"\n)\nSTORED AS TEXTFILE;"),
    "mysql": _tmpl("CREATE TABLE m{i} (a int AUTO_INCREMENT, b int) ENGINE=InnoDB DEFAULT CHARSET=utf8;"),
    "oracle": _tmpl("CREATE TABLE o{i} (a NUMBER(*,0), b VARCHAR2(30 CHAR)) TABLESPACE users STORAGE (INITIAL 64K);"),
    "snowflake": _tmpl("CREATE OR REPLACE TRANSIENT TABLE sf{i} (a int) CLUSTER BY (a) COMMENT = 'c';"),
    "mssql": _tmpl("CREATE TABLE [dbo].[ms{i}] ([a] [int] IDENTITY(1,1) NOT NULL, [b] [varchar](max)) ON [PRIMARY];"),
    "bigquery": _tmpl("CREATE TABLE p.d.bq{i} (a INT64 OPTIONS(description='x')) PARTITION BY a OPTIONS (description='d');"),
    "redshift": _tmpl("CREATE TABLE rs{i} (a int ENCODE zstd, b varchar(9)) DISTSTYLE KEY DISTKEY (a);"),
    "postgres": _tmpl("CREATE TABLE pg{i} (a int, b text) INHERITS (s.parent);"),
    "set": _tmpl("SET search_path = public;"),
    # a literal quoted one way that holds one quote character of the other kind (an odd number of ' resp. " before whatever follows on the line)
    "cross_quoted": _tmpl("CREATE TABLE cq{i} (\n  a int,\n  b varchar(20) DEFAULT \"o'clock\",\n  c varchar(20) DEFAULT 'say \"hi',\n  d int\n);"),
    "alter_group": _tmpl("CREATE TABLE ag{i} (a int, b int, c int);",
                         "ALTER TABLE ag{i} ADD CONSTRAINT fk{i} FOREIGN KEY (a) REFERENCES p (k);",
                         "CREATE INDEX ix{i} ON ag{i} (b DESC);",
                         "ALTER TABLE ag{i} DROP COLUMN b;"),
    "alter_group2": _tmpl("CREATE TABLE s.ah{i} (a int, b int);",
                          "ALTER TABLE s.ah{i} ADD n1 varchar(7);",
                          "ALTER TABLE s.ah{i} ADD CONSTRAINT uq{i} UNIQUE (a);",
                          "CREATE UNIQUE INDEX ux{i} ON s.ah{i} (a, b);",
                          "ALTER TABLE s.ah{i} ADD CONSTRAINT ck{i} CHECK (a > 3);"),
    "alter_pk": _tmpl("CREATE TABLE ap{i} (a int, b int);", "ALTER TABLE ap{i} ADD PRIMARY KEY (a);",
                      "ALTER TABLE ap{i} RENAME COLUMN b TO b2;"),
}

# calibrated on the pinned tree: solo run -> [] when silent, DDLParserError when loud
UNSUPPORTED = {
    "query": ["SELECT id FROM users WHERE flags & 4 = 4;", "SELECT ~a, !b FROM t WHERE c ? 'k' AND d | 1 = 1 AND e % 2 = 0;", "SELECT a, b FROM t WHERE x = 1;", "SELECT\n  a,\n  b\nFROM t\nWHERE x > 2;", "WITH x AS (SELECT 1) SELECT * FROM x;",
              "SELECT count(*) FROM s.t GROUP BY a HAVING count(*) > 1;", "(SELECT 1) UNION (SELECT 2);"],
    "dml": ["UPDATE t SET a = 2 WHERE b = 3;", "MERGE INTO t USING s ON t.a = s.a WHEN MATCHED THEN UPDATE SET b = 1;",
            "TRUNCATE TABLE t;"],
    "grant": ["REVOKE ALL ON t FROM joe;", "CREATE ROLE app_user;", "CREATE USER joe WITH PASSWORD 'x';"],
    "view": ["CREATE VIEW v AS SELECT a FROM t;", "CREATE OR REPLACE VIEW v AS SELECT a, b FROM t WHERE a > 1;",
             "CREATE MATERIALIZED VIEW mv AS SELECT 1;", "DROP VIEW v;", "CREATE VIEW v (a, b) AS\n  SELECT a, b\n  FROM t;"],
    "function": ["CREATE FUNCTION f() RETURNS int AS $$ SELECT 1 $$ LANGUAGE sql;",
                 "CREATE OR REPLACE FUNCTION f(x int) RETURNS int AS $$ BEGIN RETURN x; END; $$ LANGUAGE plpgsql;", "DROP FUNCTION f;"],
    "procedure": ["CREATE PROCEDURE p() BEGIN SELECT 1; END;", "CALL p(1, 2);", "EXEC sp_help;",
                  "CREATE TRIGGER tr BEFORE INSERT ON t FOR EACH ROW EXECUTE PROCEDURE f();"],
    "session": ["ALTER SESSION SET x = 1;", "PRAGMA foreign_keys = ON;", "SHOW TABLES;"],
    "transaction": ["BEGIN;", "COMMIT;", "ROLLBACK;", "START TRANSACTION;", "SAVEPOINT sp1;", "BEGIN TRANSACTION;"],
    "maintenance": ["ANALYZE t;", "VACUUM;", "VACUUM FULL t;", "EXPLAIN SELECT 1;", "COMMENT ON TABLE t IS 'hello';",
                    "LOCK TABLE t IN EXCLUSIVE MODE;", "REINDEX TABLE t;", "OPTIMIZE TABLE t;", "DROP INDEX ix;", "DROP SCHEMA s;",
                    "DROP DATABASE d;", "DROP SEQUENCE q;", "ALTER INDEX ix RENAME TO iy;", "ALTER SEQUENCE q RESTART WITH 1;",
                    "CREATE EXTENSION hstore;"],
    # statements the grammar does not know that carry a word which switches a lexer mode on (CHECK, DEFAULT, CONSTRAINT, PRIMARY, FOREIGN, TYPE,
    # DOMAIN, COMMENT, RENAME ...) without the continuation the mode expects (calibrated: [] when silent, DDLParserError when loud)
    "mode_word_without_continuation": ["ALTER TABLE orders DROP CHECK chk_amount;", "ALTER TABLE orders CHECK CONSTRAINT fk_orders;",
                                       "CREATE VIEW big_orders AS SELECT id FROM orders WITH CHECK OPTION;", "ALTER TABLE t NOCHECK CONSTRAINT ALL;",
                                       "ALTER TABLE t DROP CONSTRAINT df_x;", "ALTER TABLE t ALTER COLUMN a DROP DEFAULT;",
                                       "ALTER DEFAULT PRIVILEGES IN SCHEMA s REVOKE ALL ON TABLES FROM joe;", "CREATE INDEX ix ON other_t (a) WHERE a IS NOT NULL;",
                                       "ALTER TABLE t DROP PRIMARY KEY;", "ALTER TABLE t DROP FOREIGN KEY fk1;", "COMMENT ON COLUMN t.a IS 'references x';",
                                       "ALTER TABLE t ENABLE ROW LEVEL SECURITY;", "ALTER TABLE t DISABLE KEYS;", "DROP TYPE ty;", "DROP DOMAIN d;",
                                       "ALTER TYPE ty ADD VALUE 'c';", "ALTER TABLE t RENAME TO t2;", "ALTER TABLE t OWNER TO joe;"],
    # an unsupported statement over several lines whose LAST line starts with one of the ignored-line words
    "multiline_ending_in_ignored_line": ["WITH x AS (SELECT 1 AS id)\nINSERT INTO t SELECT id FROM x;", "EXPLAIN\nDELETE FROM t WHERE id = 1;",
                                         "EXPLAIN ANALYZE\nINSERT INTO t VALUES (1);", "WITH y AS (SELECT 2)\nDELETE FROM t;",
                                         "CREATE RULE r AS ON INSERT TO t DO\nINSERT INTO log VALUES (1);"],
    # an unsupported statement behind a stray statement terminator on the same line
    "stray_semicolon": ["; SELECT 1;", "; WITH x AS (SELECT 1) SELECT * FROM x;", "; COMMIT;", "; UPDATE t SET a = 1;", ";; SELECT 2;", ";SELECT 1;"],
    # a complete CREATE TABLE followed by something the grammar does not know (the error comes after the column list)
    "table_with_unknown_tail": ["CREATE TABLE ta (id int, total decimal(10,2)) AS SELECT id, total FROM orders;", "CREATE TABLE tb (a int) COMPRESS FOR OLTP;",
                                "CREATE TABLE tc (a int) NOT LOGGED INITIALLY;"],
    # malformed statements with unbalanced parentheses (they leave lp_open / last_par set in the lexer)
    "unparseable": ["CALL p((1, 2);", "SELECT f(a FROM t;", "SELECT a FROM t WHERE b IN (1, 2;",
                    "CREATE VIEW v AS SELECT (a + (b * 2) FROM t;", "CALL p(1, 2));", "SELECT ((a FROM t;"],
}
# statements commented out the way dump tools do it: a block comment over several lines whose closing line goes on after the '*/'
# (comments, not statements: skipped silently in both modes - used by C03 only)
COMMENTED_OUT = ["/*!50001 CREATE VIEW v AS\nSELECT 1 */;", "/*!50003 CREATE TRIGGER tr BEFORE INSERT ON t\nFOR EACH ROW SET NEW.a = 1 */;",
                      "/* SELECT a\n   FROM t */;", "/*\nUPDATE t SET a = 1;\n*/ ;", "/*!40101 SELECT 1\n*/ -- restored", "/* DROP VIEW v;\nDROP VIEW w; */;"]
# documented behaviour (README/CHANGELOG): lines starting with these words are ignored by the
# pre-processor in both modes - no entity and no exception
IGNORED = ["INSERT INTO t (a, b) VALUES (1, 'x');", "DELETE FROM t WHERE a = 1;", "GRANT SELECT ON t TO joe;",
           "GRANT ALL PRIVILEGES ON DATABASE db TO admin;", "USE mydb;", "GO", "insert into t values (1);", "go",
           # the same lines without a terminating ';' (the line is skipped as a whole, the next line starts afresh)
           "INSERT INTO t VALUES (1)", "GRANT SELECT ON t TO joe", "DELETE FROM t", "USE mydb"]
# known finding C16:set-line-inside-unsupported-statement
SET_LINE = ["UPDATE t\nSET a = 2\nWHERE b = 3;", "UPDATE s.t\nSET x = 'v'\nWHERE id = 1;"]


def all_unsupported():
    return [(fam, u) for fam, l in UNSUPPORTED.items() for u in l]


def gen_group(rng, kind, i):
    return SUPPORTED[kind](rng, i)


def script(stmts):
    return finish_script(stmts)
