"""Known findings: genuine, unrepaired defects listed in /verif/known_findings.json.

A check classifies a deviation by *mechanism* (a predicate on the input feature and on the
shape of the deviation) and tags it with a key.  Only keys listed here with status "open"
for that property are reported as KNOWN-FINDING; "fixed" entries suppress nothing, and a
tag that is not in the file is an ordinary VIOLATION.  The file is never written at run time.
"""
import json
import os

PATH = os.path.join(os.path.dirname(os.path.dirname(os.path.abspath(__file__))), "known_findings.json")


def load():
    with open(PATH) as f:
        data = json.load(f)
    return data


def open_keys(prop):
    out = {}
    for e in load().get("findings", []):
        if e.get("status") == "open" and prop in e.get("properties", [e.get("property")]):
            out[e["key"]] = e
    return out
