"""Small shared helpers: canonical JSON, digests, structural diff."""
import hashlib
import json


def canon(obj):
    """canonical JSON text (key order preserved on purpose for lists, sorted for dicts)"""
    return json.dumps(obj, sort_keys=True, default=_default, ensure_ascii=True)


def _default(o):
    if isinstance(o, (set, frozenset)):
        return {"__set__": sorted(map(str, o))}
    if isinstance(o, tuple):
        return list(o)
    if isinstance(o, bytes):
        return {"__bytes__": o.decode("latin-1")}
    return {"__repr__": repr(o)}


def digest(obj, n=12):
    if not isinstance(obj, str):
        obj = canon(obj)
    return hashlib.sha256(obj.encode("utf-8", "surrogatepass")).hexdigest()[:n]


def ddiff(a, b, path="", limit=20):
    """list of (path, a, b) where two JSON-like values differ (a tuple equals the same list)"""
    out = []
    _ddiff(a, b, path, out, limit)
    return out


def _ddiff(a, b, path, out, limit):
    if len(out) >= limit:
        return
    if isinstance(a, tuple):
        a = list(a)
    if isinstance(b, tuple):
        b = list(b)
    if type(a) is not type(b) and not (
        isinstance(a, (int, float)) and isinstance(b, (int, float)) and not isinstance(a, bool) and not isinstance(b, bool)
    ):
        out.append((path, a, b))
        return
    if isinstance(a, dict):
        for k in sorted(set(a) | set(b), key=str):
            if k not in a:
                out.append((path + "/" + str(k), "<missing>", b[k]))
            elif k not in b:
                out.append((path + "/" + str(k), a[k], "<missing>"))
            else:
                _ddiff(a[k], b[k], path + "/" + str(k), out, limit)
    elif isinstance(a, list):
        if len(a) != len(b):
            out.append((path + "#len", len(a), len(b)))
        for i, (x, y) in enumerate(zip(a, b)):
            _ddiff(x, y, path + "[%d]" % i, out, limit)
    elif a != b:
        out.append((path, a, b))


def short(obj, n=300):
    s = obj if isinstance(obj, str) else canon(obj)
    return s if len(s) <= n else s[:n] + "...(%d)" % len(s)


def jsonable(obj):
    """deep copy through canonical JSON (tuples become lists, odd objects become reprs)"""
    return json.loads(canon(obj))
