"""C11 - dialect clauses are captured under their key, orthogonal to the table body.

Oracle: differential (the same table with / without a set of clauses, same mode) + a clause
catalogue (clause text -> key, expected value, placement): every difference between the two
results must lie under a key owned by one of the clauses, and every owned key must hold the
expected value at the documented place (top level in the owning mode, table_properties in sql mode).
"""
import re
import itertools

from vf.run import entities, parse
from vf.util import ddiff, digest, short

LEVEL = "exploration"
WORKERS = {"quick": 8, "thorough": 16}
RULE = ("cases = (generated table with one of 9 last-column shapes, subset of 1..4 compatible clauses of one dialect in an allowed "
        "order, mode in {owning mode, sql}): every single clause x every last-column shape x both modes exhaustively, every ordered "
        "pair of compatible clauses, then seeded random subsets/orders; clause values are varied (formats, literals, numbers, "
        "column lists). Non-trivial = every case (each compares a with/without pair); distinct = distinct (DDL, mode).")
RULE += (" Added after seeded defects: identifier-valued clause slots take tricky-vocabulary names, delimited operands and (after TABLESPACE) keyword-shaped words; single-class STORED AS INPUTFORMAT / OUTPUTFORMAT; the clauses the pinned tree reads after a LIKE body (CREATE TABLE t LIKE s / (LIKE s)) are also generated there; ORGANIZE BY COLUMN, CLUSTERED BY col without parentheses, an MSSQL body whose key constraint carries its own WITH (...) ON [filegroup], 0 and 1 as numeric operands, trailing comments (also with an apostrophe) on clause lines.")
ASSUMPTIONS = ["a LIKE body stands where the column list would be: clauses are generated after it only where the pinned tree reads them (deny-list NOT_AFTER_LIKE, plain operands)",
               "only clause combinations compatible within one dialect; order restricted where the dialect's own grammar fixes it (hql, oracle, mssql, bigquery, postgres, ibm_db2)",
               "calibrated placements: partitioned_by / partition_by / comment / tablespace are common fields (top level in both modes); snowflake retention/tracking options and spark USING live in table_properties in both modes",
               "a ',' element inside a bigquery CLUSTER BY column list is ignored"]
MIN_EVENTS = {"statements": 100, "run_return": 100}

LAST = ["b varchar(10)", "b varchar(10) NOT NULL", "b varchar(10) DEFAULT 'x'", "b int PRIMARY KEY", "b decimal(10,2) UNIQUE", "b int REFERENCES p (k)",
        "b date,\n  PRIMARY KEY (a)", "b int,\n  CONSTRAINT u UNIQUE (a, b)", "b int DEFAULT 5 NOT NULL",
        # a double-quoted literal with an apostrophe inside (an odd number of ' in the statement before the clauses)
        "b varchar(20) DEFAULT \"o'clock\"", "b varchar(20) DEFAULT \"it's\" NOT NULL",
        # an empty literal (two quotes in a row) before the clauses
        "b varchar(10) DEFAULT ''", "b varchar(10) DEFAULT '' NOT NULL"]


# SSMS-style body: the key constraint carries its own WITH (...) ON [filegroup]; a table-level ON / WITH after the list must still win
MSSQL_LAST = "b int,\n  CONSTRAINT pk_t PRIMARY KEY CLUSTERED (a ASC) WITH (PAD_INDEX = OFF, IGNORE_DUP_KEY = OFF) ON [IDX_FG]"


def C(cid, text, exp, place="top"):
    return {"id": cid, "text": text, "exp": exp, "place": place}


# names that are keywords elsewhere in the grammar, as the second / third member of a parenthesised clause list (calibrated on the pinned tree)
KW_ARGS = ["visible", "policy", "masking", "generated", "encode", "enforced", "order", "set", "ARRAY_X", "comment", "check", "key", "index"]


def catalogue(rng):
    """dialect -> (ordered?, [clause choices per slot])  each slot is a list of alternatives; one alternative per slot is used"""
    kwi = rng.randrange(len(KW_ARGS))
    fmt = rng.choice(["PARQUET", "ORC", "TEXTFILE", "AVRO"])
    loc = rng.choice(["'s3://b/p'", "'hdfs://nn/x/y'", "'/data/t'"])
    n = rng.choice([0, 1, rng.randint(2, 64), rng.randint(2, 64)])      # zero is a value like any other
    lit = rng.choice(["'tc'", "'a table'", "'Sales 2024'"])
    ft = rng.choice(["'|'", "';'", "'$'"])
    eng = rng.choice(["InnoDB", "MyISAM", '"InnoDB"'])
    cs = rng.choice(["utf8", "latin1", "utf8mb4", '"utf8"'])
    from vf.gen import vocab
    tricky = vocab.tricky_names()
    delim = rng.choice(['"USERSPACE1"', '"Ts 1"', "[FG_2]", "`bt`", '"delta"'])      # delimited operands are reported with their delimiters (calibrated in every slot)
    ts = rng.choice(["users", "TS_1", "data01", "USER#SP1", "ts$1", "TS#2", tricky[rng.randrange(len(tricky))], tricky[rng.randrange(len(tricky))], delim])
    ts_ix = rng.choice(['"IDXSPACE1"', "[ix_fg]"]) if ts[0] in '"[`' else ts + "_ix"
    # after TABLESPACE every word except IF is a name on the pinned tree (calibrated), keyword-shaped ones included
    ts_ora = rng.choice([ts, ts] + [k.lower() for k in vocab.grammar_keywords() if k != "IF"][rng.randrange(3)::3][:40])
    parent = rng.choice(["parent2", tricky[rng.randrange(len(tricky))]])
    fg = rng.choice(["[PRIMARY]", "fg1", "[FG_2]", '"PRIMARY"', '"BLOBS"'])
    ds = rng.choice(["KEY", "ALL", "EVEN"])
    col = rng.choice(["a", "b"])
    return {
        "hql": (True, [
            [C("comment", "COMMENT " + lit, {"comment": lit}, "common")],
            [C("partitioned_by", "PARTITIONED BY (dt string, hr int)", {"partitioned_by": [{"name": "dt", "type": "string", "size": None}, {"name": "hr", "type": "int", "size": None}]}, "common"),
             C("partitioned_by", "PARTITIONED BY (dt string)", {"partitioned_by": [{"name": "dt", "type": "string", "size": None}]}, "common")],
            [C("clustered_by", "CLUSTERED BY (%s) INTO %d BUCKETS" % (col, n), {"clustered_by": [col], "into_buckets": str(n)}),
             C("clustered_by", "CLUSTERED BY %s INTO %d BUCKETS" % (col, n), {"clustered_by": col, "into_buckets": str(n)})],      # without parentheses: a plain word
            [C("skewed_by", "SKEWED BY (a) ON (1, 2)", {"skewed_by": {"key": "a", "on": ["1", "2"]}})],
            [C("row_format", "ROW FORMAT DELIMITED", {"row_format": "DELIMITED"}),
             C("row_format", "ROW FORMAT SERDE 'org.x.Serde'", {"row_format": {"serde": True, "java_class": "'org.x.Serde'"}})],
            [C("fields_terminated_by", "FIELDS TERMINATED BY " + ft, {"fields_terminated_by": ft})],
            [C("collection_items_terminated_by", "COLLECTION ITEMS TERMINATED BY ':'", {"collection_items_terminated_by": "':'"})],
            [C("map_keys_terminated_by", "MAP KEYS TERMINATED BY '#'", {"map_keys_terminated_by": "'#'"})],
            [C("stored_as", "STORED AS " + fmt, {"stored_as": fmt}),
             C("stored_as", "STORED AS INPUTFORMAT 'a.b.In' OUTPUTFORMAT 'a.b.Out'", {"stored_as": {"outputformat": "'a.b.Out'", "inputformat": "'a.b.In'"}}),
             C("stored_as", "STORED AS INPUTFORMAT 'a.b.OnlyIn'", {"stored_as": {"inputformat": "'a.b.OnlyIn'"}}),
             C("stored_as", "STORED AS OUTPUTFORMAT 'a.b.OnlyOut'", {"stored_as": {"outputformat": "'a.b.OnlyOut'"}})],
            [C("location", "LOCATION " + loc, {"location": loc})],
            [C("tblproperties", "TBLPROPERTIES ('k1'='v1', 'k2'='v2')", {"tblproperties": {"'k1'": "'v1'", "'k2'": "'v2'"}}),
             C("tblproperties", "TBLPROPERTIES ('only'='one')", {"tblproperties": {"'only'": "'one'"}})],
        ]),
        "mysql": (False, [
            [C("engine", "ENGINE=" + eng, {"engine": eng}), C("engine", "ENGINE = " + eng, {"engine": eng})],
            [C("default_charset", "DEFAULT CHARSET=" + cs, {"default_charset": cs})],
            [C("auto_increment", "AUTO_INCREMENT=%d" % n, {"auto_increment": str(n)})],
        ]),
        "oracle": (True, [
            [C("organization_index", "ORGANIZATION INDEX", {"organization_index": True})],
            [C("tablespace", "TABLESPACE " + ts_ora, {"tablespace": {"tablespace_name": ts_ora, "properties": None, "type": None, "temporary": False}}, "common")],
            [C("storage", "STORAGE (INITIAL 64K NEXT 1M)", {"storage": {"initial": "64K", "next": "1M"}}),
             C("storage", "STORAGE (INITIAL 5M)", {"storage": {"initial": "5M"}})],
        ]),
        "redshift": (False, [
            [C("diststyle", "DISTSTYLE " + ds, {"diststyle": ds})],
            [C("distkey", "DISTKEY (%s)" % col, {"distkey": col})],
            [C("sortkey", "COMPOUND SORTKEY (a)", {"sortkey": {"type": "COMPOUND", "keys": ["a"]}}),
             C("sortkey", "INTERLEAVED SORTKEY (a, b)", {"sortkey": {"type": "INTERLEAVED", "keys": ["a", "b"]}})],
        ]),
        "snowflake": (False, [
            [C("cluster_by", "CLUSTER BY (a, b)", {"cluster_by": ["a", "b"]}), C("cluster_by", "CLUSTER BY (b)", {"cluster_by": ["b"]}),
             C("cluster_by", "CLUSTER BY (b, a)", {"cluster_by": ["b", "a"]}), C("cluster_by", "CLUSTER BY (b, a, b)", {"cluster_by": ["b", "a", "b"]})]
            + [C("cluster_by", "CLUSTER BY (a, %s)" % w, {"cluster_by": ["a", w]}) for w in KW_ARGS] + [C("cluster_by", "CLUSTER BY (a, b, %s)" % KW_ARGS[kwi], {"cluster_by": ["a", "b", KW_ARGS[kwi]]})],
            [C("comment", "COMMENT = " + lit, {"comment": lit}, "common")],
            [C("data_retention_time_in_days", "DATA_RETENTION_TIME_IN_DAYS = %d" % n, {"data_retention_time_in_days": n}, "props")],
            [C("max_data_extension_time_in_days", "MAX_DATA_EXTENSION_TIME_IN_DAYS = %d" % n, {"max_data_extension_time_in_days": str(n)}, "props")],
            [C("change_tracking", "CHANGE_TRACKING = TRUE", {"change_tracking": True}, "props")],
            [C("with_tag", "WITH TAG (dept = 'x')", {"with_tag": "dept='x'"})],
        ]),
        "mssql": (True, [
            [C("with", "WITH (DATA_COMPRESSION = PAGE)", {"with": None})],
            [C("on", "ON " + fg, {"on": fg})],
            [C("textimage_on", "TEXTIMAGE_ON " + fg, {"textimage_on": fg})],
        ]),
        "bigquery": (True, [
            [C("partition_by", "PARTITION BY DATE(b)", {"partition_by": {"columns": ["b"], "type": "DATE"}}, "common"),
             C("partition_by", "PARTITION BY a", {"partition_by": {"columns": ["a"], "type": None}}, "common")],
            [C("cluster_by", "CLUSTER BY a, b", {"cluster_by": ["a", "b"]}), C("cluster_by", "CLUSTER BY a", {"cluster_by": ["a"]}),
             C("cluster_by", "CLUSTER BY b, a", {"cluster_by": ["b", "a"]})],
            [C("options", "OPTIONS (description='d', labels='l')", {"options": [{"description": "'d'"}, {"labels": "'l'"}]}),
             C("options", "OPTIONS (description='only d')", {"options": [{"description": "'only d'"}]})],
        ]),
        "postgres": (True, [
            [C("inherits", "INHERITS (s.parent)", {"inherits": {"schema": "s", "table_name": "parent"}}),
             C("inherits", "INHERITS (%s)" % parent, {"inherits": {"schema": None, "table_name": parent}})],
            [C("partition_by", "PARTITION BY RANGE (a)", {"partition_by": {"columns": ["a"], "type": "RANGE"}}, "common"),
             C("partition_by", "PARTITION BY HASH (a, b)", {"partition_by": {"columns": ["a", "b"], "type": "HASH"}}, "common"),
             C("partition_by", "PARTITION BY HASH (a, %s)" % KW_ARGS[kwi], {"partition_by": {"columns": ["a", KW_ARGS[kwi]], "type": "HASH"}}, "common")],
        ]),
        "spark_sql": (True, [
            [C("using", "USING parquet", {"using": "parquet"}, "props"), C("using", "USING delta", {"using": "delta"}, "props"), C("using", 'USING "delta"', {"using": '"delta"'}, "props")],
        ]),
        "ibm_db2": (True, [
            [C("tablespace", "IN " + ts, {"tablespace": ts}, "common")],
            [C("index_in", "INDEX IN " + ts_ix, {"index_in": ts_ix})],
            [C("organize_by", "ORGANIZE BY ROW", {"organize_by": "ROW"}), C("organize_by", "ORGANIZE BY COLUMN", {"organize_by": "COLUMN"})],
        ]),
    }


LIKE_BODIES = {"like": "CREATE TABLE s.t LIKE s.src", "like_par": "CREATE TABLE s.t (LIKE s.src)", "like_par1": "CREATE TABLE s.t (LIKE src)"}
# clauses the pinned tree does not read after a LIKE body (calibrated; no property claims them): not generated there
NOT_AFTER_LIKE = {("snowflake", "with_tag"), ("oracle", "organization_index"), ("mysql", "default_charset"), ("mysql", "auto_increment"), ("mssql", "with"),
                  ("ibm_db2", "index_in"), ("hql", "stored_as"), ("hql", "skewed_by"), ("hql", "comment"), ("bigquery", "options")}


SAFE_OPERANDS = {"users", "TS_1", "data01", "parent2", "(s.parent)", "(parent2)"}


def ok_after_like(d, c):
    """clause usable after a LIKE body: read there by the pinned tree, and - for clauses whose operand is a free name - with a plain name
    (keyword-shaped and tricky names are only claimed, and calibrated, after a column list)"""
    if (d, c["id"]) in NOT_AFTER_LIKE:
        return False
    if c["id"] in ("tablespace", "inherits", "index_in"):
        return c["text"].split()[-1] in SAFE_OPERANDS
    return True


def build(last, clauses, body=None, comments=None):
    base = LIKE_BODIES[body] if body else "CREATE TABLE s.t (\n  a int,\n  %s\n)" % last
    lines = [c["text"] + ((" " + comments[i]) if comments and i < len(comments) and comments[i] else "") for i, c in enumerate(clauses)]
    if comments and lines and comments[len(lines) - 1] and comments[len(lines) - 1].startswith("--"):
        # the terminator has to come before a trailing '--' comment of the last clause line
        last_c = comments[len(lines) - 1]
        lines[-1] = clauses[-1]["text"] + "; " + last_c
        return base + ";\n", base + "\n" + "\n".join(lines) + "\n"
    return base + ";\n", base + "\n" + "\n".join(lines) + ";\n"


CLAUSE_COMMENTS = ["-- keep", "-- legacy setting (see wiki)", "/* note */", "-- don't touch", "-- customer's choice"]      # (one apostrophe: two would pair up into a literal)


def norm_val(key, v):
    if key == "cluster_by" and isinstance(v, list):
        return [x for x in v if x != ","]
    return v


def check_case(ctx, case):
    ctx.evaluated(2)
    mode, clauses = case["mode"], case["clauses"]
    base_ddl, full_ddl = build(case["last"], clauses, case.get("body"), case.get("comments"))
    if case.get("one_line") and not case.get("comments"):
        # the whole statement on one physical line (what a line-wise pre-processor sees before a clause is then the column list)
        base_ddl, full_ddl = base_ddl.replace("\n", " ").rstrip() + "\n", full_ddl.replace("\n", " ").rstrip() + "\n"
        ctx.obs["one_line_statements"] += 1
    if case.get("body"):
        ctx.obs["like_body_cases"] += 1
    if case.get("body") and any(re.search(r", (%s)\)" % "|".join(KW_ARGS), c["text"]) for c in clauses):
        # keyword-shaped list members are calibrated for tables with a column list only (after LIKE the lexer has no column-list context: C06's ground)
        ctx.obs["keyword_shaped_members_skipped_for_like_bodies"] += 1
        return
    n_pre = 0
    m_inh = re.search(r"INHERITS \(([^)]+)\)", full_ddl)
    if m_inh and case.get("parent_defined"):
        # the table a clause names is defined by an earlier statement of the same script: the clause still only records the reference
        pre = "CREATE TABLE %s (pid int PRIMARY KEY, created date);\n" % m_inh.group(1)
        base_ddl, full_ddl, n_pre = pre + base_ddl, pre + full_ddl, 1
        ctx.obs["clause_names_a_table_defined_earlier"] += 1
    ctx.nontrivial_case(digest(full_ddl + mode))
    b = parse(base_ddl, None, output_mode=mode)
    r = parse(full_ddl, None, output_mode=mode)
    if n_pre and b[0] == "ok" and r[0] == "ok" and len(entities(b[1])) == 2 and len(entities(r[1])) == 2:
        if entities(b[1])[0] != entities(r[1])[0]:
            ctx.violation("clause_changes_another_table", dict(case, ddl=full_ddl), {"without": short(entities(b[1])[0], 200), "with": short(entities(r[1])[0], 200)})
        b, r = ("ok", entities(b[1])[1:]), ("ok", entities(r[1])[1:] + [e for e in r[1] if e not in entities(r[1])])
    ctx.obs["dialect:" + case["dialect"]] += 1
    for c in clauses:
        ctx.obs_sets["clauses_exercised"].add(case["dialect"] + ":" + c["id"])
    if b[0] != "ok" or len(b[1]) != 1:
        ctx.inconclusive_because("base table does not parse: %s" % base_ddl)
        return
    if r[0] != "ok":
        ctx.violation("exception", dict(case, ddl=full_ddl), {"exception": r[1], "message": r[2]})
        return
    r_ents = entities(r[1])          # (a trailing comment on a clause line is reported in the separate comments entry)
    if len(r_ents) != 1 or "table_name" not in r_ents[0]:
        ctx.violation("table_lost_or_split", dict(case, ddl=full_ddl), {"result": short(r[1], 300)})
        return
    bt, rt = b[1][0], r_ents[0]
    top_exp, prop_exp = {}, {}
    for c in clauses:
        for k, v in c["exp"].items():
            if c["place"] == "common" or (c["place"] == "top" and mode != "sql"):
                top_exp[k] = v
            else:
                prop_exp[k] = v
    # 1. every owned key holds the expected value at the documented place
    for k, v in top_exp.items():
        got = rt.get(k, "<absent>")
        if v is not None and norm_val(k, got) != v:
            ctx.violation("clause_value:" + k, dict(case, ddl=full_ddl), {"key": k, "place": "top level", "observed": short(got, 200), "expected": v})
        elif v is None and got in ("<absent>", None):
            ctx.violation("clause_value:" + k, dict(case, ddl=full_ddl), {"key": k, "place": "top level", "observed": short(got, 200), "expected": "a value"})
    props = rt.get("table_properties") or {}
    for k, v in prop_exp.items():
        got = props.get(k, "<absent>")
        if v is not None and norm_val(k, got) != v:
            ctx.violation("clause_value:" + k, dict(case, ddl=full_ddl), {"key": k, "place": "table_properties", "observed": short(got, 200), "expected": v, "top_level": short(rt.get(k, "<absent>"), 100)})
        elif v is None and got in ("<absent>", None):
            ctx.violation("clause_value:" + k, dict(case, ddl=full_ddl), {"key": k, "place": "table_properties", "observed": short(got, 200), "expected": "a value"})
    # 2. nothing else changed
    stray = []
    for path, x, y in ddiff(bt, rt, limit=50):
        parts = [p for p in path.split("/") if p]
        head = parts[0].split("[")[0].split("#")[0] if parts else ""
        if head in top_exp:
            continue
        if head == "table_properties":
            if len(parts) == 1:
                # whole dict appeared/disappeared: compare key sets
                keys = set((y if isinstance(y, dict) else {}).keys()) | set((x if isinstance(x, dict) else {}).keys())
                if keys <= set(prop_exp):
                    continue
            elif parts[1].split("[")[0].split("#")[0] in prop_exp:
                continue
        stray.append((path, short(x, 100), short(y, 100)))
    if stray:
        ctx.violation("clause_changes_table_body", dict(case, ddl=full_ddl), {"stray_differences": stray[:4], "owned_top": sorted(top_exp), "owned_props": sorted(prop_exp)})
    ctx.obs["clauses_checked"] += len(clauses)


def pick(rng, cat, dialect, k):
    ordered, slots = cat[dialect]
    idx = sorted(rng.sample(range(len(slots)), min(k, len(slots))))
    if not ordered:
        rng.shuffle(idx)
    return [rng.choice(slots[i]) for i in idx]


def run_shard(ctx):
    rng = ctx.rng
    i = 0
    cat0 = catalogue(ctx.sub_rng("cat"))
    # every single clause x every last-column shape x both modes
    for dialect, (ordered, slots) in sorted(cat0.items()):
        for si, slot in enumerate(slots):
            for c in slot:
                for li, last in enumerate(LAST + ([MSSQL_LAST] if dialect == "mssql" else [])):
                    if ctx.tier == "quick" and (li + si) % 3 and last != MSSQL_LAST:
                        continue
                    for mode in (dialect, "sql"):
                        i += 1
                        if ctx.mine(i):
                            check_case(ctx, {"gen": "single", "dialect": dialect, "mode": mode, "last": last, "clauses": [c]})
                            if c["id"] == "inherits":
                                check_case(ctx, {"gen": "single", "dialect": dialect, "mode": mode, "last": last, "clauses": [c], "parent_defined": True})
                            if li < 3 and ok_after_like(dialect, c):
                                check_case(ctx, {"gen": "single_like_body", "dialect": dialect, "mode": mode, "last": last, "clauses": [c], "body": sorted(LIKE_BODIES)[li]})
        # every ordered pair of compatible clauses
        for s1, s2 in itertools.permutations(range(len(slots)), 2):
            if ordered and s1 > s2:
                continue
            i += 1
            if ctx.mine(i):
                r = ctx.sub_rng("pair", i)
                check_case(ctx, {"gen": "pair", "parent_defined": True, "dialect": dialect, "mode": r.choice([dialect, "sql"]), "last": r.choice(LAST),
                                 "clauses": [r.choice(slots[s1]), r.choice(slots[s2])]})
    dialects = sorted(cat0)
    for j in range(ctx.budget(1000, 40000)):
        cat = catalogue(rng)
        d = rng.choice(dialects)
        clauses = pick(rng, cat, d, rng.randint(1, 4))
        case = {"gen": "random", "dialect": d, "mode": rng.choice([d, "sql"]), "last": rng.choice(LAST + ([MSSQL_LAST] * 4 if d == "mssql" else [])), "clauses": clauses}
        if j % 5 == 0:
            # the same clauses after a LIKE body (CREATE TABLE t LIKE s / (LIKE s)) instead of a column list
            kept = [c for c in clauses if ok_after_like(d, c)]
            if kept:
                case = dict(case, clauses=kept, body=rng.choice(sorted(LIKE_BODIES)), gen="random_like_body")
        if j % 3 == 2 and j % 4 != 1:
            case["one_line"] = True
        if j % 4 == 1:
            # a trailing comment on clause lines (an apostrophe in its text only on lines without a literal: the pinned comment splitter is
            # not quote-aware on lines that hold one)
            case["comments"] = [(rng.choice(CLAUSE_COMMENTS[:3] if "'" in c["text"] or '"' in c["text"] else CLAUSE_COMMENTS) if rng.random() < 0.6 else None)
                                for c in case["clauses"]]
        check_case(ctx, case)
        if j == 0:
            ctx.sample({"ddl": build(case["last"], case["clauses"], case.get("body"), case.get("comments"))[1], "mode": case["mode"]})
