"""C19 - file, dump and command-line entry points agree with the in-memory API.

Runtime monitoring over configurations: every case builds a scratch directory tree (input file or input
directory, a cwd, a dump target in one of several pre-states), calls one entry point of the real code
(parse_from_file, parse_from_file(dump=True), the sdp command in-process and as a separate process) and
observes three things at the boundary: the returned value / stdout / exit status, the before/after listing
of the whole scratch tree, and the write-like audit events raised meanwhile (M-FS).  The oracle is
relational: the same text (decoded here with codecs, not with open()) given to DDLParser(...).run(...).
"""
import ast
import codecs
import contextlib
import io
import json
import locale
import os
import re
import shutil
import subprocess
import sys
import tempfile

from vf.gen import scripts as GS
from vf.gen.corpus import load as load_corpus
from vf.monitor import fs
from vf.run import MODES
from vf.sandbox import PY
from vf.util import canon, ddiff, digest, short

LEVEL = "fault_enumeration"
NEEDS_CORPUS = True
INSTALL_HOOKS = True
HOOKS = {"prod": False, "reg": False, "own": False, "tok": False}
WORKERS = {"quick": 8, "thorough": 16}
ENCODINGS = ["utf-8", "utf-8-sig", "utf-16", "utf-16-le", "utf-16-be", "utf-32", "latin-1", "cp1252", "cp1251", "ascii", "shift_jis", "gb18030", "mac_roman", None]
EXTS = [".sql", ".ddl", ".hql", ".bql", "", ".txt", ".SQL", ".v2.sql", ".a.b.ddl", ".backup.2024.hql", ".sql.txt"]
RULE = ("cases = (DDL text, entry point, configuration): texts = statement mixes with comments / unsupported statements / non-ASCII "
        "literals and regression-corpus scripts; entry points = parse_from_file (14 encodings incl. BOM and mismatching-but-decodable "
        "pairs, parser_settings normalize_names x silent, run kwargs mode x group_by_type x json_dump), parse_from_file(dump=True), sdp "
        "in-process and as a separate process (-t/-o/-v/--no-dump in all combinations, single file and directory mode with eligible and "
        "ineligible names); configurations = file names with 0..3 dots / no extension / blanks, relative and absolute paths, cwd != "
        "input dir, target {default, missing, nested missing, existing, existing with a stale same-name file and an unrelated file, '.', "
        "trailing slash}. Oracle: result == DDLParser(text decoded with codecs, **settings).run(**kwargs); files created in the scratch "
        "tree == exactly the expected dump files with JSON == the result; nothing else touched; stdout of -v/--no-dump literal_evals to the "
        "result. Non-trivial = result with >= 1 entity and a configuration that differs from the test-suite's (utf-8, no dump, default "
        "settings); distinct = distinct (text, entry point, configuration).")
RULE += (" Added after seeded defects: empty-result texts (the dump must still hold []), hidden inputs (.init.sql), input directory names with glob characters and blanks, scripts from the shared pool.")
ASSUMPTIONS = ["dump file name = input base name up to its first dot + '_schema.json' (the pinned behaviour named in the property's rationale)",
               "two inputs of one directory never share a stem (a hidden file such as .init.sql has the empty stem and dumps to _schema.json)",
               "directory mode: only lower-case .sql/.ddl/.hql/.bql names are judged eligible, names without one of the four extensions must be ignored",
               "stderr / logging output is not judged"]
MIN_EVENTS = {"entry_point_calls": 200, "dump_files_compared": 40, "fs_listings_compared": 200}

NONASCII = {"latin-1": "café über", "cp1252": "prix 5€ été", "cp1251": "таблица", "utf-8": "naïve 日本語 \U0001F600",
            "utf-8-sig": "日本語", "utf-16": "日本 é", "utf-16-le": "αβγ", "utf-16-be": "αβγ", "utf-32": "日本 \U0001F600",
            "shift_jis": "日本語", "gb18030": "中文 é", "mac_roman": "café", None: "naïve 日本"}


# --------------------------------------------------------------------------- reference side
def ref_decode(raw, enc):
    """what 'the decoded file content' is: the bytes decoded with the codec, universal newlines"""
    if enc is None:
        enc = locale.getpreferredencoding(False)
    text = codecs.decode(raw, enc)
    return text.replace("\r\n", "\n").replace("\r", "\n")


def api(text, settings, kw):
    from simple_ddl_parser import DDLParser
    try:
        return ("ok", DDLParser(text, **(settings or {})).run(**kw))
    except Exception as e:
        return ("exc", type(e).__name__, str(e)[:200])


def same(a, b):
    return canon(a) == canon(b)


def jsonish(x):
    return json.loads(json.dumps(x))


def stem_of(name):
    return os.path.basename(name).split(".")[0]


# --------------------------------------------------------------------------- generators
def gen_text(ctx, rng, corp, enc="utf-8", force_ascii=False):
    r = rng.random()
    if r < 0.07:
        # texts whose result is empty (the dump file must still be written and hold [])
        return rng.choice(["", "\n", "-- nothing but a comment\n", "SELECT 1 FROM dual;\n", "GRANT ALL ON t TO joe;\n", "/* block */\n\n"])
    if r < 0.25 and corp:
        c = corp[rng.randrange(len(corp))]
        text = c["ddl"]
        if not text.endswith("\n"):
            text += "\n"
    elif r < 0.5:
        from vf.gen import sources
        text = sources.any_script(rng)[1]
    else:
        s = GS.gen_mixed(rng, with_comments=0.3, with_unsupported=0.15)
        text = s["text"]
    if not force_ascii and rng.random() < 0.6:
        na = NONASCII.get(enc, "")
        if na:
            text += "CREATE TABLE na_t (a varchar(20) DEFAULT '%s', b int COMMENT '%s');\n" % (na, na)
            if rng.random() < 0.5:
                text = "-- " + na + "\n" + text
    if rng.random() < 0.15:
        text = text.replace("\n", "\r\n")
    return text


def encodable(text, enc):
    try:
        raw = text.encode(enc or locale.getpreferredencoding(False))
        return raw
    except (UnicodeEncodeError, LookupError):
        return None


def gen_name(rng, ext=None):
    st = rng.choice(["a", "tbl", "My_File", "x1", "data-2024", "with space", "UPPER", "q_", "n0"]) + str(rng.randrange(100))
    return st + (ext if ext is not None else rng.choice(EXTS))


TARGETS = ["default", "missing", "nested_missing", "existing", "existing_stale", "dot", "trailing_slash", "absolute_missing", "same_as_input"]


IN_NAMES = ["in", "in", "in", "release[2024]", "in put", "v1.2", "ddl*", "a?b", "[x]", "in{1}"]


def build_tree(rng, root, names_texts, target_kind, abs_input, in_name="in"):
    """create root/cwd, root/<in_name>/<files>; returns dict(cwd, in_dir, paths (as they will be passed), target_arg, target_real)"""
    cwd = os.path.join(root, "cwd")
    ind = os.path.join(root, in_name)
    os.makedirs(cwd)
    os.makedirs(ind)
    paths = []
    for name, raw in names_texts:
        p = os.path.join(ind, name)
        with open(p, "wb") as f:
            f.write(raw)
        paths.append(p if abs_input else os.path.join("..", in_name, name))
    stale = {}
    if target_kind == "default":
        targ, treal = None, os.path.join(cwd, "schemas")
    elif target_kind == "missing":
        targ, treal = "out", os.path.join(cwd, "out")
    elif target_kind == "nested_missing":
        targ, treal = os.path.join("out", "a", "b"), os.path.join(cwd, "out", "a", "b")
    elif target_kind in ("existing", "existing_stale"):
        targ, treal = "res", os.path.join(cwd, "res")
        os.makedirs(treal)
        if target_kind == "existing_stale":
            for name, _ in names_texts:
                sp = os.path.join(treal, stem_of(name) + "_schema.json")
                with open(sp, "w") as f:
                    f.write(json.dumps([{"stale": "x" * 20000}]))          # much longer than any new content
            with open(os.path.join(treal, "unrelated_schema.json"), "w") as f:
                f.write("[1, 2, 3]")
            stale["unrelated"] = os.path.join(treal, "unrelated_schema.json")
    elif target_kind == "dot":
        targ, treal = ".", cwd
    elif target_kind == "trailing_slash":
        targ, treal = "out2/", os.path.join(cwd, "out2")
    elif target_kind == "absolute_missing":
        treal = os.path.join(root, "abs_out", "deep")
        targ = treal
    elif target_kind == "same_as_input":
        targ, treal = os.path.join("..", in_name), ind
    else:
        raise ValueError(target_kind)
    return {"cwd": cwd, "in_dir": ind, "paths": paths, "target_arg": targ, "target_real": treal, "stale": stale}


# --------------------------------------------------------------------------- observation helpers
def fs_diff(before, after):
    """(created files, created dirs, modified files, removed) between two fs.listing() sets"""
    def split(s):
        files, dirs = {}, set()
        for e in s:
            if e.endswith("/"):
                dirs.add(e)
            else:
                name = e.rsplit(":", 2)[0]
                files[name] = e
        return files, dirs
    bf, bd = split(before)
    af, ad = split(after)
    created = sorted(set(af) - set(bf))
    modified = sorted(n for n in af if n in bf and af[n] != bf[n])
    removed = sorted((set(bf) - set(af)) | (bd - ad))
    return created, sorted(ad - bd), modified, removed


def outside_events(events, root):
    out = []
    rroot = os.path.realpath(root)
    for ev, path in events:
        p = str(path).split(" ")[0] if ev != "open-for-write" else str(path)
        rp = os.path.realpath(p) if os.path.isabs(p) else None
        if rp is not None and not rp.startswith(rroot):
            out.append((ev, p))
    return out


def check_dump_files(ctx, case, tree, root, before, after, expected, events, label):
    """expected: {stem: result or None}; None = no dump expected at all.  Judges the before/after listings."""
    ctx.obs["fs_listings_compared"] += 1
    created, cdirs, modified, removed = fs_diff(before, after)
    want = {}
    if expected:
        trel = os.path.relpath(tree["target_real"], root)
        for stem in expected:
            want[os.path.normpath(os.path.join(trel, stem + "_schema.json"))] = expected[stem]
    touched = set(created) | set(modified)
    extra = sorted(touched - set(want))
    missing = sorted(set(want) - touched)
    if removed:
        ctx.violation(label + ":removes_files", case, {"removed": removed[:5]})
    if extra:
        ctx.violation(label + (":writes_when_no_dump" if not expected else ":unexpected_files"), case,
                      {"unexpected": extra[:5], "expected": sorted(want)[:5], "audit": events[:5]})
    if missing:
        ctx.violation(label + ":dump_file_missing", case, {"missing": missing[:5], "created": created[:5], "modified": modified[:5], "created_dirs": cdirs[:5]})
    for rel, res in want.items():
        if rel in missing:
            continue
        try:
            with open(os.path.join(root, rel)) as f:
                got = json.load(f)
        except Exception as e:
            ctx.violation(label + ":dump_not_json", case, {"file": rel, "error": repr(e)[:200]})
            continue
        ctx.obs["dump_files_compared"] += 1
        exp = json.loads(res) if isinstance(res, str) else jsonish(res)
        if got != exp:
            ctx.violation(label + ":dump_differs_from_result", case, {"file": rel, "diffs": [(p, short(x, 80), short(y, 80)) for p, x, y in ddiff(got, exp)[:4]]})
    oe = outside_events(events, root)
    if oe:
        ctx.violation(label + ":writes_outside", case, {"events": oe[:5]})
    if not expected and cdirs:
        ctx.violation(label + ":creates_dir_when_no_dump", case, {"dirs": cdirs[:5]})


def split_pprints(out):
    vals, cur = [], ""
    for line in out.splitlines():
        cur += line + "\n"
        try:
            v = ast.literal_eval(cur)
        except (SyntaxError, ValueError):
            continue
        vals.append(v)
        cur = ""
    return vals, cur.strip()


# --------------------------------------------------------------------------- case runners
def run_pf(ctx, case):
    """parse_from_file (optionally dump=True) vs the API"""
    from simple_ddl_parser import parse_from_file
    root = tempfile.mkdtemp(prefix="vf_c19_")
    old = os.getcwd()
    try:
        raw = bytes.fromhex(case["raw_hex"])
        tree = build_tree(ctx.rng, root, [(case["name"], raw)], case["target"], case["abs_input"], case.get("in_name", "in"))
        try:
            text = ref_decode(raw, case["enc"])
        except Exception:
            ctx.obs["undecodable_skipped"] += 1
            return
        kw = dict(case["kw"])
        settings = case["settings"]
        exp = api(text, settings, kw)
        call_kw = dict(kw)
        if case["dump"]:
            call_kw["dump"] = True
            if tree["target_arg"] is not None:
                call_kw["dump_path"] = tree["target_arg"]
        os.chdir(tree["cwd"])
        before = fs.listing(root)
        args = {}
        if case["enc_given"]:
            args["encoding"] = case["enc"]
        if settings is not None:
            args["parser_settings"] = dict(settings)
        ctx.evaluated(2)
        ctx.obs["entry_point_calls"] += 1
        ctx.obs["parse_from_file calls"] += 1
        with fs.Watch() as w:
            try:
                got = ("ok", parse_from_file(tree["paths"][0], **args, **call_kw))
            except Exception as e:
                got = ("exc", type(e).__name__, str(e)[:200])
        os.chdir(old)
        after = fs.listing(root)
        if not same(got, exp):
            d = ddiff(got[1], exp[1])[:4] if got[0] == "ok" and exp[0] == "ok" and not isinstance(got[1], str) and not isinstance(exp[1], str) else None
            ctx.violation("parse_from_file_differs_from_api", case, {"diffs": d, "observed": short(got, 300), "api": short(exp, 300)})
        if exp[0] == "ok" and (exp[1] if not isinstance(exp[1], str) else exp[1] != "[]"):
            if case["enc"] not in ("utf-8",) or case["dump"] or settings or case["name"].count(".") != 1:
                ctx.nontrivial_case(digest(canon(case)))
        expected = None
        if case["dump"] and exp[0] == "ok":
            expected = {stem_of(case["name"]): exp[1]}
        check_dump_files(ctx, case, tree, root, before, after, expected, w.events, "parse_from_file")
    finally:
        os.chdir(old)
        shutil.rmtree(root, ignore_errors=True)


def cli_argv(tree, paths_arg, flags):
    argv = [paths_arg]
    if tree["target_arg"] is not None:
        argv += [flags.get("t_form", "-t"), tree["target_arg"]]
    if flags.get("v"):
        argv.append("-v")
    if flags.get("no_dump"):
        argv.append("--no-dump")
    if flags.get("mode") is not None:
        argv += [flags.get("o_form", "-o"), flags["mode"]]
    if flags.get("shuffle"):
        # options before the positional argument
        argv = argv[1:] + [argv[0]]
    return argv


def run_cli(ctx, case):
    """sdp (in-process main() or separate process) on one file or a directory vs the API once per eligible file"""
    root = tempfile.mkdtemp(prefix="vf_c19_")
    old = os.getcwd()
    old_argv = sys.argv
    try:
        files = [(n, bytes.fromhex(h)) for n, h in case["files"]]
        tree = build_tree(ctx.rng, root, files, case["target"], case["abs_input"], case.get("in_name", "in"))
        flags = case["flags"]
        mode = flags.get("mode") or "sql"
        if case["dir_mode"]:
            path_arg = tree["in_dir"] if case["abs_input"] else os.path.join("..", case.get("in_name", "in"))
            elig = [(n, r) for n, r in files if re.search(r"\.(sql|ddl|hql|bql)$", n)]
        else:
            path_arg = tree["paths"][0]
            elig = files[:1]
        per_file = {}
        for n, r in elig:
            per_file[n] = api(ref_decode(r, "utf-8"), None, {"output_mode": mode})
        argv = cli_argv(tree, path_arg, flags)
        before = fs.listing(root)
        ctx.evaluated(1 + len(elig))
        ctx.obs["entry_point_calls"] += 1
        if case["subprocess"]:
            ctx.obs["sdp separate-process runs"] += 1
            evf = os.path.join(root, "..", os.path.basename(root) + ".events.json")
            env = dict(os.environ, VF_FS_OUT=evf)
            try:
                r = subprocess.run([PY, "-B", "-m", "vf.checks.c19_cli"] + argv, cwd=tree["cwd"], env=env, capture_output=True, text=True, timeout=120)
            except subprocess.TimeoutExpired:
                ctx.inconclusive_because("sdp subprocess timed out")
                return
            out, status = r.stdout, ("exit", r.returncode)
            err_tail = r.stderr[-300:]
            try:
                events = [tuple(e) for e in json.load(open(evf))]
            except Exception:
                events = []
            finally:
                with contextlib.suppress(OSError):
                    os.remove(evf)
        else:
            ctx.obs["sdp in-process runs"] += 1
            from simple_ddl_parser import cli as CLI
            buf = io.StringIO()
            os.chdir(tree["cwd"])
            sys.argv = ["sdp"] + argv
            err_tail = ""
            with fs.Watch() as w, contextlib.redirect_stdout(buf):
                try:
                    CLI.main()
                    status = ("exit", 0)
                except SystemExit as e:
                    status = ("exit", e.code if isinstance(e.code, int) else (0 if e.code is None else 1))
                except Exception as e:
                    status = ("exc", type(e).__name__)
                    err_tail = str(e)[:200]
            os.chdir(old)
            sys.argv = old_argv
            out, events = buf.getvalue(), w.events
        after = fs.listing(root)
        any_exc = [n for n, v in per_file.items() if v[0] != "ok"]
        if any_exc:
            # the API raises for (one of) the file(s): the command must fail too (non-zero exit / same exception), nothing judged beyond that
            ctx.obs["api_raises_cases"] += 1
            ok_fail = (status[0] == "exc" and status[1] == per_file[any_exc[0]][1]) or (status[0] == "exit" and status[1] not in (0, None))
            if not ok_fail:
                ctx.violation("sdp:succeeds_where_api_raises", case, {"status": status, "api": short(per_file[any_exc[0]], 200), "stdout": short(out, 200)})
            return
        if status != ("exit", 0) and status != ("exit", None):
            ctx.violation("sdp:fails_where_api_succeeds", case, {"status": status, "stderr": err_tail, "argv": argv})
            return
        if any(v[1] for v in per_file.values()) and (case["dir_mode"] or flags.get("mode") or case["target"] != "default" or flags.get("no_dump")):
            ctx.nontrivial_case(digest(canon(case)))
        # files
        expected = None if flags.get("no_dump") else {stem_of(n): v[1] for n, v in per_file.items()}
        check_dump_files(ctx, case, tree, root, before, after, expected, events, "sdp")
        # stdout
        if flags.get("v") or flags.get("no_dump"):
            vals, rest = split_pprints(out)
            ctx.obs["stdout_results_compared"] += len(vals)
            want = sorted(canon(v[1]) for v in per_file.values())
            have = sorted(canon(v) for v in vals)
            if rest or want != have:
                ctx.violation("sdp:printed_result_differs", case, {"printed": short(out, 400), "expected_results": len(want), "parsed_results": len(vals), "unparsed_tail": short(rest, 200),
                                                                   "first_expected": short(want[0], 300) if want else None})
    finally:
        os.chdir(old)
        sys.argv = old_argv
        shutil.rmtree(root, ignore_errors=True)


def check_case(ctx, case):
    if case["gen"] == "pf":
        run_pf(ctx, case)
    else:
        run_cli(ctx, case)


# --------------------------------------------------------------------------- workload
def gen_pf_case(ctx, rng, corp, j):
    enc = ENCODINGS[j % len(ENCODINGS)] if rng.random() < 0.7 else rng.choice(ENCODINGS)
    text = gen_text(ctx, rng, corp, enc)
    write_enc = enc
    if rng.random() < 0.08:
        # written in one single-byte code page, read in another that can decode every byte (both sides get the same odd text)
        write_enc, enc = rng.choice([("cp1252", "latin-1"), ("utf-8", "latin-1"), ("utf-8-sig", "utf-8"), ("cp1251", "latin-1"), ("utf-8", "cp1251")])
        text = gen_text(ctx, rng, corp, write_enc)
    raw = encodable(text, write_enc)
    if raw is None:
        text = gen_text(ctx, rng, corp, enc, force_ascii=True)
        raw = encodable(text, write_enc) or text.encode("ascii", "replace")
    settings = None
    r = rng.random()
    if r < 0.5:
        settings = {}
        if rng.random() < 0.6:
            settings["normalize_names"] = rng.random() < 0.6
        if rng.random() < 0.5:
            settings["silent"] = rng.random() < 0.5
    kw = {}
    if rng.random() < 0.6:
        kw["output_mode"] = rng.choice(MODES)
    if rng.random() < 0.25:
        kw["group_by_type"] = True
    if rng.random() < 0.2:
        kw["json_dump"] = True
    if rng.random() < 0.03:
        kw["output_mode"] = rng.choice(["SQL", "pg", "", "hql "])
    dump = rng.random() < 0.45
    return {"gen": "pf", "raw_hex": raw.hex(), "enc": enc, "enc_given": enc != "utf-8" or rng.random() < 0.5, "name": gen_name(rng), "settings": settings, "kw": kw,
            "dump": dump, "target": rng.choice(TARGETS) if dump else "default", "abs_input": rng.random() < 0.5, "in_name": rng.choice(IN_NAMES)}


INELIGIBLE = ["notes.txt", "data.json", "README", "readme.md", "old.sql.bak", "x.py", "table.csv", "y.sqlx", "Makefile",
              # names without any dot that ARE one of the four extension words
              "sql", "hql", "ddl", "bql", "sql", "hql"]


def gen_cli_case(ctx, rng, corp, subprocess_=False, dir_mode=None):
    if dir_mode is None:
        dir_mode = rng.random() < 0.4
    files = []
    if dir_mode:
        stems = set()
        for q in range(rng.randint(1, 5)):
            ext = rng.choice([".sql", ".ddl", ".hql", ".bql", ".v2.sql", ".x.y.ddl"])
            name = gen_name(rng, ext)
            if stem_of(name) in stems:
                continue
            stems.add(stem_of(name))
            files.append((name, gen_text(ctx, rng, corp).encode("utf-8").hex()))
        if rng.random() < 0.25 and "" not in stems:
            stems.add("")
            files.append((rng.choice([".init.sql", ".hidden.ddl"]), gen_text(ctx, rng, corp).encode("utf-8").hex()))      # a hidden file is a .sql file too
        for name in rng.sample(INELIGIBLE, rng.randint(0, 4)):
            if stem_of(name) not in stems:
                stems.add(stem_of(name))
                files.append((name, (gen_text(ctx, rng, corp) if rng.random() < 0.7 else "not sql at all {").encode("utf-8").hex()))
        rng.shuffle(files)
    else:
        files.append((gen_name(rng), gen_text(ctx, rng, corp).encode("utf-8").hex()))
    flags = {"v": rng.random() < 0.4, "no_dump": rng.random() < 0.35, "mode": rng.choice(MODES) if rng.random() < 0.6 else None,
             "t_form": rng.choice(["-t", "--target"]), "o_form": rng.choice(["-o", "--output-mode"]), "shuffle": rng.random() < 0.3}
    if rng.random() < 0.04:
        flags["mode"] = rng.choice(["SQL", "postgresql", "x"])
    return {"gen": "cli", "files": files, "dir_mode": dir_mode, "flags": flags, "target": rng.choice(TARGETS), "abs_input": rng.random() < 0.5, "subprocess": subprocess_,
            "in_name": rng.choice(IN_NAMES)}


def run_shard(ctx):
    rng = ctx.rng
    corp = [c for c in load_corpus() if c["ok"] and not c["init_kw"]]
    thorough = ctx.tier == "thorough"
    # exhaustive small products first (each shard takes its share)
    i = 0
    for enc in ENCODINGS:
        for ext in EXTS:
            for dump in (False, True):
                i += 1
                if not ctx.mine(i):
                    continue
                text = gen_text(ctx, rng, corp, enc)
                raw = encodable(text, enc)
                if raw is None:
                    continue
                check_case(ctx, {"gen": "pf", "raw_hex": raw.hex(), "enc": enc, "enc_given": True, "name": "f%d%s" % (i, ext), "settings": {"normalize_names": bool(i % 2)},
                                 "kw": {"output_mode": MODES[i % len(MODES)]}, "dump": dump, "target": TARGETS[i % len(TARGETS)], "abs_input": bool(i % 3)})
                ctx.obs_sets["encodings"].add(str(enc))
                ctx.obs_sets["extensions"].add(ext)
    for target in TARGETS:
        for v in (False, True):
            for nd in (False, True):
                for mode in (None, "hql", "bigquery"):
                    for dm in (False, True):
                        i += 1
                        if not ctx.mine(i):
                            continue
                        c = gen_cli_case(ctx, rng, corp, dir_mode=dm)
                        c["target"] = target
                        c["flags"].update(v=v, no_dump=nd, mode=mode)
                        check_case(ctx, c)
                        ctx.obs_sets["cli_flag_combinations"].add("%s|v=%s|nodump=%s|o=%s|dir=%s" % (target, v, nd, mode, dm))
    # random
    for j in range(ctx.budget(600, 15000)):
        c = gen_pf_case(ctx, rng, corp, j)
        check_case(ctx, c)
        ctx.obs_sets["encodings"].add(str(c["enc"]))
        if j == 0:
            ctx.sample({k: (v if k != "raw_hex" else short(bytes.fromhex(v).decode("latin-1"), 300)) for k, v in c.items()})
    for j in range(ctx.budget(300, 8000)):
        c = gen_cli_case(ctx, rng, corp)
        check_case(ctx, c)
        if j == 0:
            ctx.sample({"argv": cli_argv({"target_arg": "out"}, "<input>", c["flags"]), "files": [n for n, _ in c["files"]], "dir_mode": c["dir_mode"], "target": c["target"]})
    for j in range(ctx.budget(64, 1500)):
        c = gen_cli_case(ctx, rng, corp, subprocess_=True)
        check_case(ctx, c)
    # a path that does not exist: nothing may be written
    c = {"gen": "cli", "files": [("real.sql", "CREATE TABLE t (a int);\n".encode().hex())], "dir_mode": False, "flags": {}, "target": "missing", "abs_input": True, "subprocess": False, "nonexistent": True}
    run_nonexistent(ctx, c)


def run_nonexistent(ctx, case):
    root = tempfile.mkdtemp(prefix="vf_c19_")
    old, old_argv = os.getcwd(), sys.argv
    try:
        tree = build_tree(ctx.rng, root, [(n, bytes.fromhex(h)) for n, h in case["files"]], "missing", True)
        from simple_ddl_parser import cli as CLI
        os.chdir(tree["cwd"])
        before = fs.listing(root)
        sys.argv = ["sdp", os.path.join(tree["in_dir"], "no_such_file.sql"), "-t", "out"]
        with fs.Watch() as w, contextlib.redirect_stdout(io.StringIO()):
            try:
                CLI.main()
            except SystemExit:
                pass
            except Exception:
                pass
        os.chdir(old)
        after = fs.listing(root)
        ctx.evaluated()
        check_dump_files(ctx, case, tree, root, before, after, None, w.events, "sdp_nonexistent_path")
    finally:
        os.chdir(old)
        sys.argv = old_argv
        shutil.rmtree(root, ignore_errors=True)
