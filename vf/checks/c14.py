"""C14 - run() is deterministic, repeatable and free of side effects.

Oracle: offline history checker.  Every run() on a long-lived object is compared with the same
call on a fresh object; every result already returned is deep-snapshotted at return time and
re-compared after each later call (aliasing detector); canonical digests of a common case list
are computed in worker processes started with different PYTHONHASHSEED values and joined on the
case id; an audit hook (M-FS) plus before/after listings of a scratch cwd watch for files.
"""
import copy
import os
import tempfile

from vf.gen import scripts as GS
from vf.gen.corpus import load as load_corpus
from vf.monitor import fs
from vf.run import MODES, parse
from vf.util import canon, ddiff, digest, short

LEVEL = "exploration"
NEEDS_CORPUS = True
WORKERS = {"quick": 8, "thorough": 16}
RULE = ("cases = call histories run(a1), ..., run(ak), k = 2..6, on one parser object, argument sets drawn from 15 modes x group_by_type "
        "x json_dump, over scripts with comments, SET lines, ALTER groups, unsupported statements and an unterminated last statement "
        "(so every piece of per-object state is exercised), plus corpus scripts; each call is compared with a fresh object, every "
        "returned result is re-compared after each later call; a common list of (script, flags, args) cases is digested in every "
        "worker process, workers running under PYTHONHASHSEED 0, 1, 4242, 31337, random...; every run() executes in an empty scratch "
        "cwd under a file-system audit hook. Non-trivial = history with >= 2 different argument sets on a script with >= 2 "
        "entities; distinct = distinct (script, history)."
        " Added after seeded defects: file_path / dump_path arguments without dump, parse_from_file under the file monitor, empty scripts, cross-script histories (B alters a table only A defines), a bystander object with the opposite flags constructed (never run) between the calls, scripts without any ';' whose last line starts a statement, the sdp command with --no-dump on a file / a directory under the file monitor, the common cross-process list walked in a different order by every worker and extended by one-statement cases that put the same option words after a LIKE body, after a column list, after an ALTER and after a CHECK.")
ASSUMPTIONS = ["'another process' = same machine, same interpreter build", "dump=False throughout (C19 owns dumping)"]
MIN_EVENTS = {"run_return": 500}
HASHSEEDS = ["0", "1", "4242", "31337", "random", "7", "99999", "random"]


def shard_env(shard, nshards, tier):
    return {"PYTHONHASHSEED": HASHSEEDS[shard % len(HASHSEEDS)]}


def gen_args(rng):
    a = {}
    if rng.random() < 0.7:
        a["output_mode"] = rng.choice(MODES)
    if rng.random() < 0.35:
        a["group_by_type"] = True
    if rng.random() < 0.25:
        a["json_dump"] = True
    r = rng.random()
    if r < 0.12:
        a["file_path"] = rng.choice(["model.sql", "in/a.b.ddl", "/data/x.hql"])     # only names the dump file; dump stays False
    elif r < 0.18:
        a["dump"] = False
        a["dump_path"] = "out"
        a["file_path"] = "t.sql"
    return a


CONTEXT_OPTIONS = ["WITH (fillfactor=70)", "COMMENT 'abc'", "STORED AS TEXTFILE", "OPTIONS (description='x')", "DEFAULT CHARSET=utf8", "TBLPROPERTIES ('a'='b')",
                   "LOCATION 's3://b/k'", "TABLESPACE ts1", "ENGINE=InnoDB", "CLUSTER BY (id)", "PARTITIONED BY (id int)", "ON COMMIT DROP", "USING iceberg", "INHERITS (base)",
                   "DATA_RETENTION_TIME_IN_DAYS = 3", "AUTO_INCREMENT=5", "ROW FORMAT DELIMITED", "WITHOUT ROWID", "AS SELECT 1", "key", "index"]
CONTEXT_TEMPLATES = ["CREATE TABLE cx1 (LIKE src) {opt};\n", "CREATE TABLE cx2 LIKE s.src {opt};\n", "CREATE TABLE cx3 (id int, name varchar(20)) {opt};\n",
                     "CREATE TABLE cx4 (id int);\nALTER TABLE cx4 ADD CONSTRAINT c1 UNIQUE (id) {opt};\n", "CREATE TABLE cx5 (id int CHECK (id > 0)) {opt};\n"]


def gen_script(rng):
    if rng.random() < 0.06:
        return rng.choice(["", "   ", "\n", "  \n\n", "-- only a comment\n", "USE db;\n", "SELECT 1;\n"])      # nothing to parse at all
    if rng.random() < 0.3:
        from vf.gen import sources
        text = sources.any_script(rng)[1]
    else:
        text = GS.gen_mixed(rng, with_comments=0.4, with_unsupported=0.2)["text"]
    r = rng.random()
    import re
    lines = text.rstrip("\n").split("\n")
    if r < 0.12 and len(lines) > 1 and re.match(r"(CREATE|DROP)\b", lines[-1], re.I) and not any(m in text for m in ("--", "/*", "#", "ALTER ", "INDEX ")):
        # no ';' at all and no final newline: every statement is closed by the start of the next one, the last one by the end of the input
        lines = [l[:-1] if l.endswith(";") and re.match(r"(CREATE|DROP)\b", nxt, re.I) else l for l, nxt in zip(lines, lines[1:] + [""])]
        text = "\n".join(lines).rstrip(";")
    elif r < 0.2:
        text = text.rstrip("\n").rstrip(";") + "\n"          # unterminated last statement
    elif r < 0.35:
        text = "SET search_path = public;\n" + text
    elif r < 0.45:
        text = text + "CREATE TABLE tail_t (a int, b int) -- no terminator\n"
    elif r < 0.6:
        text = text + rng.choice(["SET last_opt = 5;\n", "SET x.y = 'v'\n", "set names utf8;\n", "SET last_opt = 5", "SET last_opt = 5", "SET a = 1;\nSET b = 2"])   # a SET line is still pending when the run ends
    return text


_EARLIER = []      # (ddl, live result, deep snapshot) of the last few *other* scripts parsed in this process


def run_history(ctx, case):
    from simple_ddl_parser import DDLParser
    ddl, ctor, history = case["ddl"], case.get("ctor") or {}, case["history"]
    try:
        p = DDLParser(ddl, **ctor)
    except Exception as e:
        ctx.obs["construct_raises_skipped"] += 1
        return
    returned = []
    for step, args in enumerate(history):
        ctx.evaluated(2)
        if step % 2 == 1 or len(history) == 1:
            # a bystander: another parser object with the opposite flags is merely constructed (never run) before this call
            try:
                DDLParser('CREATE TABLE "By" ("x" int) garbage (;\n', normalize_names=not ctor.get("normalize_names", False), silent=not ctor.get("silent", True))
                ctx.obs["bystander_objects_constructed"] += 1
            except Exception:
                pass
        before = fs.listing(".")
        with fs.Watch() as w:
            try:
                r = ("ok", p.run(**args))
            except Exception as e:
                r = ("exc", type(e).__name__, str(e)[:200])
        after = fs.listing(".")
        ctx.obs["runs_under_fs_watch"] += 1
        if w.events or before != after:
            ctx.violation("file_side_effect", dict(case, step=step), {"audit_events": w.events[:5], "new_in_cwd": sorted(after - before)[:5]})
        fresh = parse(ddl, ctor, **args)
        if r[0] != fresh[0] or (r[0] == "ok" and r[1] != fresh[1]) or (r[0] == "exc" and r[1:] != fresh[1:]):
            d = ddiff(r[1], fresh[1])[:4] if r[0] == "ok" and fresh[0] == "ok" and not isinstance(r[1], str) else None
            ctx.violation("depends_on_earlier_calls", dict(case, step=step), {"step": step, "args": args, "diffs": d, "observed": short(r, 300), "fresh_object": short(fresh, 300)})
        for (j, live, snap) in returned:
            if live != snap:
                ctx.violation("returned_result_modified_later", dict(case, step=step), {"result_of_step": j, "modified_by_step": step,
                                                                                      "diffs": [(q, short(x, 100), short(y, 100)) for q, x, y in ddiff(live, snap)[:4]]})
                break
        if r[0] == "ok":
            returned.append((step, r[1], copy.deepcopy(r[1])))
        ctx.obs["history_steps"] += 1
    # results returned for EARLIER, different scripts (by other parser objects) must not have been touched by parsing this one
    for eddl, live, snap in _EARLIER:
        ctx.obs["earlier_results_rechecked"] += 1
        if live != snap:
            ctx.violation("returned_result_modified_later", dict(case, step=-1), {"modified_by": "parsing ANOTHER script afterwards (another object)", "earlier_script": short(eddl, 300),
                                                                                  "diffs": [(q, short(x, 100), short(y, 100)) for q, x, y in ddiff(live, snap)[:4]]})
            _EARLIER[:] = []
            break
    if returned and not isinstance(returned[0][1], str):
        _EARLIER.append((ddl, returned[0][1], copy.deepcopy(returned[0][1])))
        del _EARLIER[:-4]


SELF_CONTAINED_PAIRS = [
    ("CREATE TABLE arch_{n} LIKE orders;\n", "CREATE TABLE stg_{n} LIKE orders;\nALTER TABLE stg_{n} ADD loaded_at timestamp;\n"),
    ("CREATE TABLE arch_{n} (LIKE s.orders);\nCREATE TABLE keep_{n} (a int, b int);\n", "CREATE TABLE stg_{n} (LIKE s.orders);\nALTER TABLE stg_{n} ADD n1 int;\nCREATE INDEX ix_{n} ON stg_{n} (n1);\n"),
    ("CREATE TABLE c_{n} CLONE src;\n", "CREATE TABLE d_{n} CLONE src;\nALTER TABLE d_{n} ADD z int;\n"),
    ("CREATE TABLE t_{n} (a int, b int);\n", "CREATE TABLE t_{n} (a int, b int);\nALTER TABLE t_{n} {alter};\n"),
    ("CREATE TABLE s.t_{n} (a int PRIMARY KEY, b int);\nCREATE INDEX i_{n} ON s.t_{n} (b);\n", "CREATE TABLE s.t_{n} (a int PRIMARY KEY, b int);\nALTER TABLE s.t_{n} {alter};\nCREATE UNIQUE INDEX j_{n} ON s.t_{n} (a DESC);\n"),
    ("CREATE TABLE t_{n} (a int, b int);\nALTER TABLE t_{n} ADD c int;\n", "CREATE TABLE u_{n} (a int, b int);\nALTER TABLE u_{n} {alter};\nALTER TABLE u_{n} ADD c int;\n"),
    ("CREATE TYPE ty_{n} AS ENUM ('a', 'b');\nCREATE DOMAIN d_{n} AS varchar(10);\n", "CREATE TYPE ty_{n} AS ENUM ('x', 'y', 'z');\nCREATE DOMAIN d_{n} AS ENUM ('q', 'r');\nCREATE DOMAIN e_{n} AS char(3);\n"),
    ("CREATE DOMAIN d_{n} AS ENUM ('a', 'b');\nCREATE DOMAIN c_{n} AS CHAR(2);\n", "CREATE DOMAIN d2_{n} AS ENUM ('x');\nCREATE DOMAIN c2_{n} AS VARCHAR(5);\n"),
    ("CREATE EXTERNAL TABLE h_{n} (a string)\nROW FORMAT SERDE 'org.apache.hadoop.hive.serde2.RegexSerDe'\nWITH SERDEPROPERTIES (\n  \"input.regex\" = \"([0-9]+);(.*)\"\n)\nSTORED AS TEXTFILE;\n",
     "CREATE EXTERNAL TABLE h_{n} (a string)\nROW FORMAT SERDE 'org.apache.hadoop.hive.serde2.RegexSerDe'\nWITH SERDEPROPERTIES (\n  \"input.regex\" = \"(x+)(y+)\"\n)\nSTORED AS TEXTFILE;\n"),
    ("CREATE SEQUENCE q_{n} START WITH 5 INCREMENT BY 2;\n", "CREATE SEQUENCE q_{n} START WITH 7 INCREMENT BY 3 CACHE 10;\nCREATE TABLE cache (id int);\nCREATE INDEX i ON cache (id);\n"),
    ("CREATE TABLE p_{n} (a int, b int) PARTITIONED BY (dt string);\n", "CREATE TABLE p2_{n} (a int) PARTITIONED BY (dt string, hr int);\nALTER TABLE p2_{n} ADD c int;\n"),
]


def cross_script_case(ctx, case):
    """two *different* scripts in one process: A defines table T, B only alters / indexes T.  B's outcome (it raises: T is not defined in
    B) must be the same before and after A was parsed - by the same or by another parser object - and A's returned result must not be
    touched by B.  Table names are unique per case, so earlier cases of this process cannot interfere with the reference."""
    from simple_ddl_parser import DDLParser
    a_ddl, b_ddl, args = case["a"], case["b"], case.get("args") or {}

    def run_b():
        try:
            return ("ok", DDLParser(b_ddl).run(**args))
        except Exception as e:
            return ("exc", type(e).__name__, str(e)[:200])
    ctx.evaluated(4)
    before = run_b()
    pa = DDLParser(a_ddl)
    try:
        ra = pa.run(**args)
    except Exception as e:
        ctx.violation("depends_on_other_scripts_parsed_earlier", case, {"step": "A (two plain tables) after B was tried", "observed": ["exc", type(e).__name__, str(e)[:200]]})
        return
    snap = copy.deepcopy(ra)
    after = run_b()
    ctx.obs["cross_script_histories"] += 1
    if canon(before) != canon(after):
        ctx.violation("depends_on_other_scripts_parsed_earlier", case, {"b_alone_first": short(before, 300), "b_after_a": short(after, 300)})
    if ra != snap:
        ctx.violation("returned_result_modified_later", case, {"modified_by": "run() of another script on another object",
                                                               "diffs": [(q, short(x, 100), short(y, 100)) for q, x, y in ddiff(ra, snap)[:4]]})
    try:
        again = pa.run(**args)
    except Exception as e:
        ctx.violation("depends_on_earlier_calls", case, {"step": "A again after B", "observed": ["exc", type(e).__name__, str(e)[:200]], "first_run": short(snap, 200)})
        return
    if canon(again) != canon(snap):
        ctx.violation("depends_on_earlier_calls", case, {"step": "A again after B", "diffs": [(q, short(x, 100), short(y, 100)) for q, x, y in ddiff(again, snap)[:4]] if not isinstance(again, str) else None})


def cli_no_dump_case(ctx, case):
    """the command line entry point asked NOT to dump (sdp <file|dir> --no-dump [-t target] [-o mode]): nothing may appear in the working
    directory, next to the input, or at the target"""
    import contextlib
    import io
    import shutil
    import sys
    from simple_ddl_parser import cli as CLI
    root, cwd = tempfile.mkdtemp(prefix="vf_c14c_"), os.getcwd()
    old_argv = list(sys.argv)
    try:
        src, work = os.path.join(root, "in"), os.path.join(root, "work")
        os.makedirs(src)
        os.makedirs(work)
        for name, text in case["files"].items():
            with open(os.path.join(src, name), "w") as f:
                f.write(text)
        target = os.path.join(src, sorted(case["files"])[0]) if case["single_file"] else src
        argv = [target, "--no-dump"] + list(case.get("extra") or [])
        os.chdir(work)
        before = fs.listing(root)
        sys.argv = ["sdp"] + argv
        ctx.evaluated()
        with fs.Watch() as w, contextlib.redirect_stdout(io.StringIO()):
            try:
                CLI.main()
            except SystemExit:
                pass
            except Exception:
                ctx.obs["cli_raises_skipped"] += 1
        after = fs.listing(root)
        ctx.obs["cli_no_dump_runs"] += 1
        ctx.nontrivial_case(digest("cli|" + canon(case)))
        if w.events or before != after:
            ctx.violation("file_side_effect", case, {"entry_point": "sdp " + " ".join(["<in>" if a == target else a for a in argv]),
                                                    "audit_events": w.events[:5], "new": sorted(after - before)[:5]})
    finally:
        os.chdir(cwd)
        sys.argv = old_argv
        shutil.rmtree(root, ignore_errors=True)


def cache_state_check(ctx, batch, states):
    """the calls of batch in fresh processes whose copy of the package holds another state of the parse-table cache"""
    import json as _json
    import shutil as _shutil
    import subprocess
    import sys
    from vf.checks import c20 as _c20
    snap_root = os.environ.get("VF_SNAPSHOT", "")
    bcode = ("import json, sys\nfrom simple_ddl_parser import DDLParser\nres = []\nfor ddl, kw in json.loads(sys.stdin.read()):\n"
             "    try:\n        res.append(['ok', DDLParser(ddl).run(**kw)])\n    except Exception as e:\n        res.append(['exc', type(e).__name__, str(e)[:200]])\n"
             "print('VFRESULT' + json.dumps(res))\n")

    def child(root):
        env = dict(os.environ, PYTHONPATH=root + os.pathsep + os.environ.get("PYTHONPATH", ""))
        d = tempfile.mkdtemp(prefix="vf_c14p_")
        try:
            r = subprocess.run([sys.executable, "-B", "-c", bcode], input=_json.dumps(batch), capture_output=True, text=True, timeout=600, env=env, cwd=d)
        except subprocess.TimeoutExpired:
            return None
        finally:
            _shutil.rmtree(d, ignore_errors=True)
        lines = [l for l in r.stdout.splitlines() if l.startswith("VFRESULT")]
        return _json.loads(lines[-1][len("VFRESULT"):]) if lines else None
    base = child(snap_root) if snap_root and os.path.isdir(os.path.join(snap_root, "simple_ddl_parser")) else None
    if base is None:
        ctx.inconclusive_because("no baseline result for the cache-state processes")
    else:
        for state in states:
            root = tempfile.mkdtemp(prefix="vf_c14c_")
            try:
                _shutil.copytree(os.path.join(snap_root, "simple_ddl_parser"), os.path.join(root, "simple_ddl_parser"))
                if _c20.inject(state, root, snap_root) is None:
                    ctx.obs["cache_state_not_buildable:" + state] += 1
                    continue
                for phase in ("first process", "second process"):
                    got = child(root)
                    ctx.evaluated(len(batch))
                    ctx.obs["calls_in_a_process_with_another_cache_state"] += len(batch)
                    if got is None:
                        ctx.inconclusive_because("cache-state process produced no result (%s)" % state)
                        break
                    bad = [k for k in range(len(batch)) if got[k] != base[k]]
                    if bad:
                        k = bad[0]
                        ctx.violation("depends_on_the_parse_table_cache", {"gen": "cache_state", "ddl": batch[k][0], "args": batch[k][1], "state": state},
                                      {"state": state, "process": phase, "with_valid_cache": short(base[k], 300), "observed": short(got[k], 300), "differing_calls": len(bad)})
                        break
            finally:
                _shutil.rmtree(root, ignore_errors=True)


def check_case(ctx, case):
    if case.get("gen") == "cache_state":
        return cache_state_check(ctx, [[case["ddl"], case.get("args") or {}]], [case["state"]])
    if case.get("gen") == "cli_no_dump":
        return cli_no_dump_case(ctx, case)
    if case.get("gen") == "cross_script":
        return cross_script_case(ctx, case)
    if case.get("gen") in ("parse_from_file", "parser_settings"):
        # replay of the file entry point: parse a small file in an empty cwd under the fs monitor
        from simple_ddl_parser import parse_from_file
        import shutil
        d, scratch, cwd = tempfile.mkdtemp(prefix="vf_c14f_"), tempfile.mkdtemp(prefix="vf_c14p_"), os.getcwd()
        try:
            path = os.path.join(d, "x.sql")
            open(path, "w").write("CREATE TABLE t (a int); -- c\n")
            os.chdir(scratch)
            before = fs.listing(d) | fs.listing(".")
            settings = dict(case.get("settings") or {"silent": True})
            snap = copy.deepcopy(settings)
            with fs.Watch() as w:
                try:
                    parse_from_file(path, parser_settings=settings, **(case.get("args") or {}))
                except Exception:
                    pass
            after = fs.listing(d) | fs.listing(".")
            ctx.evaluated()
            if w.events or before != after:
                ctx.violation("file_side_effect", case, {"audit_events": w.events[:5], "changed": sorted(after ^ before)[:5]})
            if settings != snap:
                ctx.violation("argument_modified", case, {"after": settings})
        finally:
            os.chdir(cwd)
            shutil.rmtree(d, ignore_errors=True)
            shutil.rmtree(scratch, ignore_errors=True)
        return
    if case.get("gen") == "xproc":
        ctx.notes.append("cross-process cases are reproduced by re-running the whole check with the same VERIF_SEED")
        return
    if len({canon(a) for a in case["history"]}) >= 2:
        ctx.nontrivial_case(digest(case["ddl"] + canon(case["history"])))
    cwd = os.getcwd()
    scratch = tempfile.mkdtemp(prefix="vf_c14_")
    try:
        os.chdir(scratch)
        run_history(ctx, case)
    finally:
        os.chdir(cwd)
        try:
            import shutil
            shutil.rmtree(scratch, ignore_errors=True)
        except Exception:
            pass


def post_merge(results, m):
    """join the cross-process digests on the case id"""
    by = {}
    for r in results:
        for item in r.get("obs_sets", {}).get("xproc", []):
            cid, dg = item.split("=", 1)
            by.setdefault(cid, set()).add(dg)
    m["obs"]["cross_process_cases_joined"] = len(by)
    m["obs"]["worker_processes_compared"] = len(results)
    bad = [cid for cid, s in by.items() if len(s) > 1]
    for cid in bad[:5]:
        m["vcount"][("differs_across_processes_or_hash_seeds", None)] += 1
        m["violations"].append({"kind": "differs_across_processes_or_hash_seeds", "kf": None,
                                "case": {"gen": "xproc", "case_id": cid, "note": "re-run ./check C14 quick with the same VERIF_SEED to reproduce; digests differ between workers started with different PYTHONHASHSEED"},
                                "detail": {"digests": sorted(by[cid])}})


def run_shard(ctx):
    rng = ctx.rng
    ctx.obs_sets["hash_seeds"].add(os.environ.get("PYTHONHASHSEED", "?"))
    # (1) cross-process / hash-seed determinism: the same cases in every worker
    xr = ctx.sub_rng("xproc")
    corp = [c for c in load_corpus() if c["ok"]]
    xcases = []
    for i in range(150 if ctx.tier == "quick" else 1500):
        if i % 3 == 2:
            c = corp[xr.randrange(len(corp))]
            ddl, ctor = c["ddl"], dict(c["init_kw"])
        else:
            ddl, ctor = gen_script(xr), ({"normalize_names": True} if xr.random() < 0.3 else {})
        xcases.append((ddl, ctor, gen_args(xr)))
    # the same word in two lexer contexts (after LIKE / after a column list / as a name): one statement per case
    for opt in CONTEXT_OPTIONS:
        for tpl in CONTEXT_TEMPLATES:
            xcases.append((tpl.format(opt=opt), {}, {}))
    # every worker walks the common list in its own order: a result that depends on what the process parsed before differs between workers
    order = list(range(len(xcases)))
    if ctx.shard:
        __import__("random").Random(ctx.seed * 7919 + ctx.shard).shuffle(order)
    ctx.obs_sets["xproc_orders"].add(digest(order, 8))
    for i in order:
        ddl, ctor, args = xcases[i]
        ctx.evaluated()
        r = parse(ddl, ctor, **args)
        ctx.obs_sets["xproc"].add("%d=%s" % (i, digest(canon(r), 16)))
    # (2) histories on one object
    for j in range(ctx.budget(500, 20000)):
        ddl = gen_script(rng)
        k = rng.randint(2, 6)
        hist = [gen_args(rng) for _ in range(k)]
        if rng.random() < 0.4:
            hist[rng.randrange(1, k)] = dict(hist[0])        # the same arguments again later
        case = {"gen": "history", "ddl": ddl, "ctor": {"normalize_names": True} if rng.random() < 0.3 else {}, "history": hist}
        check_case(ctx, case)
        if j == 0:
            ctx.sample({"ddl": ddl[:600], "history": hist})
    n = ctx.budget(64, len(corp) + ctx.nshards)
    for j in range(n):
        idx = j * ctx.nshards + ctx.shard
        if ctx.tier == "quick":
            idx = (idx * 17 + ctx.seed) % len(corp)
        if idx >= len(corp):
            break
        c = corp[idx]
        hist = [dict(c["run_kw"]), gen_args(rng), dict(c["run_kw"])]
        check_case(ctx, {"gen": "corpus", "ddl": c["ddl"], "ctor": c["init_kw"], "history": hist})
        ctx.obs["corpus_histories"] += 1
    # (2b) cross-script histories (state shared between Output / parser objects of different scripts)
    for j in range(ctx.budget(120, 3000)):
        tn = "xs_%d_%d_%d" % (ctx.seed, ctx.shard, j)
        sch = rng.choice(["", "s.", "Sa."])
        a = "CREATE TABLE %s%s (a int, b int);\nCREATE TABLE other_%s (z int);\n" % (sch, tn, tn)
        b = rng.choice(["ALTER TABLE %s%s ADD c int;\n", "CREATE INDEX ix_%s ON %s%s (a);\n".replace("ix_%s", "ix_" + tn), "ALTER TABLE %s%s ADD CONSTRAINT fk FOREIGN KEY (a) REFERENCES p (k);\n",
                        "CREATE TABLE unrelated (q int);\nALTER TABLE %s%s DROP COLUMN b;\n"]) % (sch, tn)
        args = {k: v for k, v in gen_args(rng).items() if k in ("output_mode", "group_by_type")}
        check_case(ctx, {"gen": "cross_script", "a": a, "b": b, "args": args})
    # (2b') the same, with a B that is complete in itself and builds on the same kind of object as A (a table without columns that is
    #       then altered, the same table text plus ALTERs, an ENUM type / domain, a serde regex, a sequence): what B adds may not show
    #       up in what A returned, nor in a later run of A
    for j in range(ctx.budget(160, 3000)):
        n = "%d_%d_%d" % (ctx.seed, ctx.shard, j)
        a, b = rng.choice(SELF_CONTAINED_PAIRS)
        alt = rng.choice(["ADD loaded_at timestamp", "ADD n1 int DEFAULT 5", "ADD CONSTRAINT fk_x FOREIGN KEY (a) REFERENCES p (k)", "ADD CONSTRAINT uq_x UNIQUE (a)", "DROP COLUMN b",
                          "RENAME COLUMN a TO a2", "ADD CONSTRAINT ck_x CHECK (a > 3)", "ADD PRIMARY KEY (a)"])
        args = {k: v for k, v in gen_args(rng).items() if k in ("output_mode", "group_by_type")}
        check_case(ctx, {"gen": "cross_script", "a": a.replace("{n}", n), "b": b.replace("{n}", n).replace("{alter}", alt), "args": args})
        ctx.obs["cross_script_self_contained_pairs"] += 1
    # (2b'') "in another process": the same default call in a fresh interpreter whose FIRST parser object was built (not run) with rarely used
    #        constructor options - logging / module-level configuration fixed by the first object may not reach the result of a later one
    import json as _json
    import shutil as _shutil
    import subprocess
    import sys
    code = ("import json, sys\nfrom simple_ddl_parser import DDLParser\nfirst, ddl, kw = json.loads(sys.stdin.read())\n"
            "if first is not None:\n    DDLParser('CREATE TABLE first_t (a int);', **first)\n"
            "try:\n    out = ['ok', DDLParser(ddl).run(**kw)]\nexcept Exception as e:\n    out = ['exc', type(e).__name__, str(e)[:200]]\nprint('VFRESULT' + json.dumps(out))\n")
    firsts = [{"log_level": 10}, {"log_level": "DEBUG"}, {"debug": True}, {"silent": False}, {"normalize_names": True}, {"log_level": 50}]
    for j in range(ctx.budget(16, 160)):
        ddl = gen_script(rng)
        kw = {k: v for k, v in gen_args(rng).items() if k in ("output_mode", "group_by_type")}
        outs = []
        for first in (None, firsts[(j + ctx.shard) % len(firsts)]):
            d = tempfile.mkdtemp(prefix="vf_c14p_")
            try:
                r = subprocess.run([sys.executable, "-B", "-c", code], input=_json.dumps([first, ddl, kw]), capture_output=True, text=True, timeout=120, env=dict(os.environ), cwd=d)
            finally:
                _shutil.rmtree(d, ignore_errors=True)
            lines = [l for l in r.stdout.splitlines() if l.startswith("VFRESULT")]
            outs.append(_json.loads(lines[-1][len("VFRESULT"):]) if lines else None)
        ctx.evaluated(2)
        ctx.obs["fresh_interpreter_pairs"] += 1
        if outs[0] is None or outs[1] is None:
            ctx.inconclusive_because("fresh-interpreter pair produced no result")
        elif outs[0] != outs[1]:
            ctx.violation("depends_on_first_object_of_the_process", {"gen": "fresh_pair", "ddl": ddl, "args": kw, "first_ctor": firsts[(j + ctx.shard) % len(firsts)]},
                          {"first_object_ctor": firsts[(j + ctx.shard) % len(firsts)], "alone": short(outs[0], 300), "after_first_object": short(outs[1], 300)})
    # (2b3) "in another process" whose copy of the package holds another state of the parse-table CACHE (parsetab.py missing / of another
    #       grammar revision with other tables): the cache is no argument of the call, the result may not depend on it
    if ctx.shard < (1 if ctx.tier == "quick" else 4):
        batch = []
        for j in range(12 if ctx.tier == "quick" else 60):
            batch.append([gen_script(rng), {k: v for k, v in gen_args(rng).items() if k in ("output_mode", "group_by_type")}])
        batch.append(["CREATE SEQUENCE dev.incremental_ids INCREMENT BY 10 START WITH 1;\nCREATE TABLE s.t2 (a timestamp without time zone, b int REFERENCES p (k) ON UPDATE SET NULL);\n", {}])
        cache_state_check(ctx, batch, ["missing", "stale_signature_wrong_tables"] if ctx.tier == "quick" else ["missing", "stale_signature_wrong_tables", "older_version_wrong_tables", "stale_signature_same_tables"])
    # (2c) the command line entry point with --no-dump, for one file and for a directory
    for j in range(ctx.budget(24, 400)):
        files = {n: gen_script(rng) for n in rng.sample(["a.sql", "b.ddl", "c.hql", "notes.txt", "d.bql"], rng.randint(1, 3))}
        if not any(n.rsplit(".", 1)[-1] in ("sql", "ddl", "hql", "bql") for n in files):
            files["z.sql"] = gen_script(rng)
        extra = rng.choice([[], [], ["-t", "out/json"], ["-o", rng.choice(["mysql", "hql", "bigquery"])], ["-v"], ["-t", "dumpdir", "-v"]])
        check_case(ctx, {"gen": "cli_no_dump", "files": files, "single_file": rng.random() < 0.4, "extra": extra})
    # (3) parse_from_file must not modify its parser_settings argument
    from simple_ddl_parser import parse_from_file
    import shutil
    d = tempfile.mkdtemp(prefix="vf_c14f_")
    try:
        path = os.path.join(d, "x.sql")
        for j in range(10 if ctx.tier == "quick" else 60):
            with open(path, "w") as f:
                f.write(gen_script(rng))
            settings = {"normalize_names": bool(j % 2), "silent": True}
            snap = copy.deepcopy(settings)
            ctx.evaluated()
            args = {k: v for k, v in gen_args(rng).items() if k != "file_path"}
            cwd = os.getcwd()
            scratch = tempfile.mkdtemp(prefix="vf_c14p_")
            os.chdir(scratch)
            try:
                before = fs.listing(d) | fs.listing(".")
                with fs.Watch() as w:
                    try:
                        parse_from_file(path, parser_settings=settings, **args)
                    except Exception:
                        pass
                after = fs.listing(d) | fs.listing(".")
            finally:
                os.chdir(cwd)
                shutil.rmtree(scratch, ignore_errors=True)
            ctx.obs["runs_under_fs_watch"] += 1
            if w.events or before != after:
                ctx.violation("file_side_effect", {"gen": "parse_from_file", "args": args}, {"audit_events": w.events[:5], "changed": sorted(after ^ before)[:5]})
            ctx.obs["argument_mutation_checks"] += 1
            if settings != snap:
                ctx.violation("argument_modified", {"gen": "parser_settings", "settings": snap}, {"after": settings})
    finally:
        import shutil
        shutil.rmtree(d, ignore_errors=True)
