"""C01 - column definitions are reproduced exactly and in order; none lost or invented.

Oracle: reference model (vf.gen.schema.table_expect) built from the abstract schema that was
rendered; the parser output is compared field by field at the run() boundary.
"""
import itertools

from vf.gen import schema as S
from vf.gen.render import finish_script, multiline_table, render
from vf.run import entities, parse
from vf.util import digest, short

LEVEL = "exploration"
WORKERS = {"quick": 8, "thorough": 16}
RULE = ("cases = scripts of generated CREATE TABLE statements (abstract schema -> text); exhaustive option "
        "subsets x orders (<=4 of NULL/NOT NULL, DEFAULT, PRIMARY KEY, UNIQUE, REFERENCES) x types x column "
        "position, then seeded random schemas (1..8 tables x 1..12 columns) in canonical / one-column-per-line / "
        "free layouts, then stress tables (50..800 columns) and scripts (50..200 tables). A case is non-trivial "
        "when the reference model compares at least one column carrying a size or an option; distinct = distinct DDL text."
        " Added after seeded defects: parenthesised / decimal defaults, 25% of column names and 12% of table names from the calibrated tricky vocabulary (vf.gen.vocab), zero sizes, CRLF scripts, signed-decimal defaults as a known-finding class, pg_dump casts to one- and two-word types as defaults, tables whose names are all delimited (some with blanks) read with normalize_names=True, type words after a precision/scale size (decimal(10,2) unsigned), a table created twice in one script, one-column-per-line scripts of 3..8 tables without any ';', two columns of one table differing only in case / delimiters.")
ASSUMPTIONS = ["only the core column fragment named in the property is generated (DESIGN 5)",
               "column names are plain identifiers here (C06 owns hostile names), literals are clean (C07 owns hostile ones)",
               "reporting conventions tolerated: {'columns':[x]} == {'column':x} in references, DEFAULT null == 'NULL'"]
MIN_EVENTS = {"statements": 50, "run_return": 50}

SAFE_LAYOUTS = [None, "multiline", {"case": "lower"}, {"case": "random", "ws": True}, {"ws": True, "nl": 0.25},
                {"case": "cap", "nl": 0.15, "ws": True}]


def render_tables(tables, layout, rng):
    texts = []
    for t in tables:
        if layout == "multiline":
            texts.append(multiline_table(S.table_head_tokens(t), S.table_item_tokens(t), []))
        else:
            texts.append(render(S.table_tokens(t), layout, rng))
    return finish_script(texts)


def make_case(tables, layout, rng, gen):
    ddl = render_tables(tables, layout, rng)
    return {"gen": gen, "ddl": ddl, "expected": [S.table_expect(t) for t in tables], "layout": layout if isinstance(layout, (str, type(None))) else dict(layout)}


SPACED = ["first name", "Order Date", "unit price", "a b c", "zip code", "Col 1"]


def delimited_pair(t, rng):
    """(table to render, table the result is expected to equal) for normalize_names=True: every column name and the table name written
    between delimiters - some of them holding a blank (double quotes only) - and expected back bare"""
    import copy
    shown, bare = copy.deepcopy(t), copy.deepcopy(t)
    for _k, c in bare["items"]:
        for o in c.get("opts", []):
            if o["k"] == "ref":
                for f in ("table", "schema"):
                    if o.get(f) and o[f][:1] in '"`[':
                        o[f] = o[f][1:-1]          # a delimited reference target loses its delimiters as well
    for (k1, c1), (k2, c2) in zip(shown["items"], bare["items"]):
        if rng.random() < 0.3:
            nm = "%s %s" % (rng.choice(SPACED), c1["name"][-3:])
            c1["name"], c2["name"] = '"%s"' % nm, nm
        elif c1["name"][:1] not in '"[`':
            a, b = rng.choice(['""', "``", "[]"])
            c1["name"] = a + c1["name"] + b
    if shown["name"][:1] not in '"[`':
        nm = shown["name"] if rng.random() < 0.6 else "My Table " + shown["name"][-3:]
        shown["name"], bare["name"] = '"%s"' % nm, nm
    return shown, bare


def check_case(ctx, case):
    ctx.evaluated()
    exp = case["expected"]
    if any(c["size"] is not None or c["default"] is not None or c["unique"] or c["references"] or not c["nullable"]
           for t in exp for c in t["columns"]):
        ctx.nontrivial_case(digest(case["ddl"]))
    r = parse(case["ddl"], case.get("ctor"))
    if r[0] == "exc":
        ctx.violation("exception", case, {"exception": r[1], "message": r[2]})
        return False
    ents = entities(r[1])
    if len(ents) != len(exp):
        ctx.violation("table_count", case, {"observed": len(ents), "expected": len(exp),
                                            "observed_names": [e.get("table_name") if isinstance(e, dict) else None for e in ents]},
                      kf="C01:signed-decimal-default" if case.get("feature") == "signed_decimal" and not ents else None)
        return False
    ok = True
    for ent, e in zip(ents, exp):
        errs = S.compare_table(ent, e, check_constraints=False)
        if errs:
            ok = False
            what = errs[0][0].split(" ")[0] + ("." + errs[0][0].split(".")[-1] if errs[0][0].startswith("column ") else "")
            ctx.violation(what, case, {"table": e["table_name"], "diffs": [(w, short(o, 200), short(x, 200)) for w, o, x in errs[:4]]})
        ctx.obs["columns_compared"] += len(e["columns"])
    ctx.obs["tables_compared"] += len(exp)
    n = ctx.obs["tables_compared"]
    if ok and n % 7 == 0:
        # the columns are reproduced on every call, not only on the first one on an object
        from vf.run import run_history
        h = run_history(case["ddl"], case.get("ctor"), [{}, {}, {"group_by_type": True}])
        ctx.evaluated(3)
        ctx.obs["same_object_histories"] += 1
        if h[0] != ("ok", r[1]) or h[1] != ("ok", r[1]) or h[2][0] != "ok":
            ctx.violation("columns_differ_when_run_again", case, {"first": short(h[0], 200), "second": short(h[1], 200), "third": short(h[2], 150)})
            ok = False
    return ok


def signed_decimal_cases(ctx):
    """DEFAULT -1.5 / +2.5: the lexer splits a signed decimal at its point and the whole table is lost on the pinned tree
    (listed known finding); anything else than 'table lost' or the correct result is an ordinary violation"""
    from vf.gen.vocab import SIGNED_DECIMALS
    for j, d in enumerate(SIGNED_DECIMALS):
        for pos in (0, 1, 2):
            if not ctx.mine(j * 3 + pos):
                continue
            cols = [S.make_column("c%d" % q, (["int"], None), []) for q in range(3)]
            cols[pos] = S.make_column("amt", (["decimal"], [10, 2]), [{"k": "default", "toks": S.T(d), "exp": d}, {"k": "notnull"}])
            t = {"schema": None, "name": "t", "prefix": "plain", "items": [("col", c) for c in cols]}
            case = make_case([t], None, ctx.rng, "signed_decimal")
            case["feature"] = "signed_decimal"
            yield case


def exhaustive_cases(ctx):
    max_len = 3 if ctx.tier == "quick" else 4
    types = S.CORE_TYPES[:3] + S.CORE_TYPES[12:13] if ctx.tier == "quick" else [S.CORE_TYPES[i] for i in (0, 4, 12, 16, 20, 21)]
    i = 0
    for order in S.all_opt_orders(S.CORE_OPT_KINDS, max_len):
        for ty in types:
            for pos in (0, 1, 2):
                i += 1
                if not ctx.mine(i):
                    continue
                rng = ctx.sub_rng("exh", i)
                cols = [S.make_column("c0", (["int"], None), []), S.make_column("c1", (["varchar"], [5]), [{"k": "notnull"}]),
                        S.make_column("c2", (["date"], None), [])]
                name = "tgt%d" % pos
                cols[pos] = S.make_column(name, ty, [S.gen_opt(rng, k, name) for k in order])
                t = {"schema": rng.choice([None, "s"]), "name": "t", "prefix": "plain", "items": [("col", c) for c in cols]}
                yield make_case([t], rng.choice([None, "multiline"]), rng, "exhaustive")


def run_shard(ctx):
    for case in signed_decimal_cases(ctx):
        check_case(ctx, case)
        ctx.obs["signed_decimal_cases"] += 1
    rng = ctx.rng
    n_exh = 0
    for case in exhaustive_cases(ctx):
        check_case(ctx, case)
        n_exh += 1
    ctx.obs["exhaustive_cases"] += n_exh
    # random schemas
    for i in range(ctx.budget(1500, 40000)):
        k = rng.randint(1, 8) if rng.random() < 0.3 else rng.randint(1, 3)
        tables = [S.gen_table(rng, j, max_cols=12) for j in range(k)]
        if rng.random() < 0.1:
            # two distinct columns of one table whose names differ only in letter case / delimiters: each keeps its own declaration
            cols = [it for kind, it in tables[0]["items"] if kind == "col"]
            if len(cols) >= 2:
                a, b = rng.sample(cols, 2)
                base = a["name"]
                alike = rng.choice(['"%s"' % base.upper(), '"%s"' % base, "[%s]" % base, base.upper() if base.upper() != base else base.lower(), "`%s`" % base.capitalize()])
                if base.isalnum() and alike != base and alike not in [c["name"] for c in cols] and not any(o["k"] == "check" for o in b["opts"]):
                    b["name"] = alike
                    ctx.obs["tables_with_lookalike_columns"] += 1
        layout = rng.choice(SAFE_LAYOUTS)
        if k >= 2 and rng.random() < 0.12:
            # a re-runnable / concatenated script: a later statement creates a table the script already created (every statement is reported)
            tables[-1]["name"], tables[-1]["schema"] = tables[0]["name"], tables[0]["schema"]
            tables[-1]["prefix"] = rng.choice(["if_not_exists", "if_not_exists", "plain", "or_replace"])
            ctx.obs["scripts_with_a_table_created_twice"] += 1
        case = make_case(tables, layout, rng, "random")
        if layout == "multiline" and k >= 3 and rng.random() < 0.4:
            # no ';' at all: every CREATE TABLE is closed by the start of the next one (its first line begins with CREATE), the last by the end of input
            case["ddl"] = case["ddl"].replace(");\n", ")\n")
            if rng.random() < 0.5:
                case["ddl"] = case["ddl"].rstrip("\n")
            case["unterminated"] = True
            ctx.obs["scripts_without_terminators"] += 1
        if rng.random() < 0.12 and "\n" in case["ddl"]:
            # the same script with Windows line ends (a string passed to DDLParser, not a file)
            case["ddl"] = case["ddl"].replace("\n", "\r\n")
            case["crlf"] = True
            ctx.obs["crlf_scripts"] += 1
        check_case(ctx, case)
        if i == 0:
            ctx.sample({"ddl": case["ddl"][:600], "expected_first_table": case["expected"][0]})
        ctx.obs["random_cases"] += 1
        if i % 6 == 0:
            # the same kind of tables with every name delimited, read with normalize_names=True: the columns come back bare, blanks kept
            pairs = [delimited_pair(S.gen_table(rng, j, max_cols=8), rng) for j in range(rng.randint(1, 2))]
            case = make_case([a for a, b in pairs], rng.choice(SAFE_LAYOUTS), rng, "delimited_normalized")
            case["expected"] = [S.table_expect(b) for a, b in pairs]
            case["ctor"] = {"normalize_names": True}
            check_case(ctx, case)
            ctx.obs["delimited_normalized_cases"] += 1
    # stress: very wide tables, long scripts
    widths = [50, 200] if ctx.tier == "quick" else [50, 200, 800]
    lengths = [50] if ctx.tier == "quick" else [50, 200]
    jobs = [("wide", w) for w in widths] + [("long", n) for n in lengths]
    for j, (kind, n) in enumerate(jobs):
        if not ctx.mine(j):
            continue
        if kind == "wide":
            tables = [S.gen_table(rng, 0, ncols=n)]
        else:
            tables = [S.gen_table(rng, q, max_cols=5) for q in range(n)]
        case = make_case(tables, rng.choice([None, "multiline"]), rng, "stress_%s_%d" % (kind, n))
        check_case(ctx, case)
        ctx.obs["stress_cases"] += 1
