"""C03 - statements of a script are parsed independently and reported in order.

Oracle (relational, over executions): result(script) == in-order concatenation of the results of
its statement *groups* (a head statement + the ALTER / CREATE INDEX statements targeting it), each
group run alone in a fresh parser.  Unsupported statements and documented ignored lines inserted
at the gaps must change nothing.  M-FLAGS / the process_statement contract explain witnesses.
"""
import itertools

from vf.gen import stmts as G
from vf.gen.corpus import load as load_corpus
from vf.monitor import contracts
from vf.monitor.hooks import STATE
from vf.run import entities, parse
from vf.util import ddiff, digest, short

LEVEL = "exploration"
NEEDS_CORPUS = True
WORKERS = {"quick": 8, "thorough": 16}
RULE = (("cases = scripts s1;...;sn: (1) the full predecessor x successor matrix over %d supported statement kinds (every lexer "
        "flag is set by some predecessor: LIKE, CHECK, SEQUENCE, ALTER, <...> types, dialect tails) with one unsupported or ignored "
        "statement inserted at a seeded gap (thorough: every gap); (2) seeded random sequences of 2..8 groups whose ALTER/INDEX "
        "followers are scattered after their head, unsupported statements from %d families inserted at random gaps; (3) 2..5 "
        "regression-corpus scripts concatenated in random order. Non-trivial = the script has >= 2 supported groups; distinct = "
        "distinct script text."
        " Added after seeded defects: the same table name produced twice with ALTER/INDEX in between, the very same statement text repeated, statements the lexer rejects (known finding unless anything but that exception happens), unterminated ignored lines, stray-semicolon statements, ALTER/INDEX statements after the later of two definitions of a name, statements commented out by a block comment whose closing line continues after '*/', every 3rd ALTER/INDEX history also in a dialect output mode, every 6th script also through parse_from_file.") % (len(G.SUPPORTED), len(G.UNSUPPORTED) + 1))
ASSUMPTIONS = ["every statement ends with ';' at the end of a line (the property's premise)",
               "corpus scripts are used as whole units; concatenations in which two scripts define the same table are skipped",
               "GO / USE / INSERT / GRANT / DELETE lines are the documented ignored-line family (skipped in both modes)"]
MIN_EVENTS = {"statements": 100, "run_return": 100}

_solo = {}


def solo(ctx, stmts):
    key = "\n".join(stmts)
    if key not in _solo:
        r = parse(G.script(stmts))
        _solo[key] = r
        ctx.obs["solo_runs"] += 1
    return _solo[key]


def build(groups, inserts, order=None):
    """groups: list of statement lists; order: list of (group index, member index) giving the script order;
    inserts: {gap index: [unsupported statement texts]}"""
    if order is None:
        order = [(gi, mi) for gi, g in enumerate(groups) for mi in range(len(g))]
    out = []
    for pos in range(len(order) + 1):
        out.extend(inserts.get(pos, inserts.get(str(pos), [])))
        if pos < len(order):
            gi, mi = order[pos]
            out.append(groups[gi][mi])
    return out


def scatter(rng, groups):
    """heads in group order; followers anywhere after their head, keeping their own relative order"""
    order = [(gi, 0) for gi in range(len(groups))]
    for gi, g in enumerate(groups):
        lo = order.index((gi, 0))
        for mi in range(1, len(g)):
            pos = rng.randint(lo + 1, len(order))
            order.insert(pos, (gi, mi))
            lo = pos
    return order


def check_case(ctx, case):
    if case.get("gen") == "history_model":
        return history_model_case(ctx, case)
    ctx.evaluated()
    groups = case["groups"]
    stmts = build(groups, case.get("inserts", {}), case.get("order"))
    text = G.script(stmts)
    if len(groups) >= 2:
        ctx.nontrivial_case(digest(text))
    expected = []
    for g in groups:
        s = solo(ctx, g)
        if s[0] != "ok":
            ctx.obs["skipped_solo_raises"] += 1
            return
        expected.extend(entities(s[1]))
    nleak = STATE.counters.get("flag_leak", 0)
    ncv = STATE.counters.get("contract_violation:statement_buffer", 0)
    r = parse(text)
    kf = "C16:set-line-inside-unsupported-statement" if case.get("feature") == "set_line" else None
    if r[0] == "exc":
        k = None
        if case.get("feature") == "lexer_reject" and r[1] == "DDLParserError" and "Unknown symbol" in r[2]:
            # listed defect: a character the lexer does not know raises although silent=True; any *other* outcome than this
            # exception or the correct result (e.g. the statements after it vanishing) is an ordinary violation
            k = "C16:lexer-error-raises-when-silent"
        ctx.violation("exception", dict(case, script=text), {"exception": r[1], "message": r[2]}, kf=k)
        return
    got = entities(r[1])
    if got != expected:
        d = ddiff(got, expected)
        kind = "entity_count" if len(got) != len(expected) else "entity_changed"
        k = None
        if kf:
            extra = [e for e in got if e not in expected]
            if extra and all(isinstance(e, dict) and set(e) == {"name", "value"} for e in extra) and [e for e in got if e in expected] == expected:
                k = kf
        explain = {}
        if STATE.counters.get("flag_leak", 0) > nleak:
            explain["lexer_flags_leaked"] = STATE.flag_leaks[-2:]
        ctx.violation(kind, dict(case, script=text), {"diffs": d[:4], "observed_n": len(got), "expected_n": len(expected), "explain": explain}, kf=k)
    if STATE.counters.get("contract_violation:statement_buffer", 0) > ncv:
        ctx.obs["statement_buffer_contract_witnesses"] += 1
    n = ctx.obs["scripts_checked"] = ctx.obs["scripts_checked"] + 1
    if n % 6 == 0 and "\r" not in text:
        # the same script read through the file entry point: the statements, and nothing else, decide the result there as well
        from vf.run import parse_via_file
        vf = parse_via_file(text)
        ctx.evaluated()
        ctx.obs["via_parse_from_file"] += 1
        if vf[0] != "ok" or vf[1] != r[1]:
            ctx.violation("parse_from_file_differs", dict(case, script=text), {"via_file": short(vf, 250), "run": short(r[1], 250)})
    ctx.obs["entities_compared"] += len(expected)
    ctx.obs["inserted_unsupported"] += sum(len(v) for v in case.get("inserts", {}).values())


def history_model_case(ctx, case):
    from vf.checks import c04
    ctx.evaluated()
    r = parse(case["script"])
    ctx.obs["model_checked_histories"] += 1
    if r[0] == "exc":
        ctx.violation("exception", case, {"exception": r[1], "message": r[2]})
        return
    ents = entities(r[1])
    if len(ents) != len(case["model"]):
        ctx.violation("entity_count", case, {"observed": len(ents), "expected": len(case["model"])})
        return
    for ent, t in zip(ents, case["model"]):
        errs = c04.compare(ent, t)
        if errs:
            ctx.violation("alter_outcome_differs_from_sequential_model", case, {"table": [t["schema"], t["name"]], "diffs": [(w, short(o, 200), short(x, 200)) for w, o, x in errs[:3]]})
            return
    n = ctx.obs["model_checked_histories"]
    if n % 3 == 0:
        # the same script in a dialect output mode: every ALTER / INDEX still reaches the table it names
        from vf.checks.c10 import ren
        mode = ["bigquery", "mysql", "hql", "postgres", "bigquery", "snowflake"][(n // 3) % 6]
        rm = parse(case["script"], None, output_mode=mode)
        ctx.evaluated()
        ctx.obs["model_checked_histories_in_dialect_mode"] += 1
        if rm[0] == "exc":
            ctx.violation("exception_in_dialect_mode", dict(case, mode=mode), {"mode": mode, "exception": rm[1], "message": rm[2]})
            return
        ents_m = [ren(e) for e in entities(rm[1])]
        if len(ents_m) != len(case["model"]):
            ctx.violation("entity_count", dict(case, mode=mode), {"mode": mode, "observed": len(ents_m), "expected": len(case["model"])})
            return
        for ent, t in zip(ents_m, case["model"]):
            errs = c04.compare(ent, t)
            if errs:
                ctx.violation("alter_outcome_differs_from_sequential_model", dict(case, mode=mode), {"mode": mode, "table": [t["schema"], t["name"]],
                                                                                                   "diffs": [(w, short(o, 200), short(x, 200)) for w, o, x in errs[:3]]})
                return


def _stmt_contract(self, result, old, *a, **kw):
    st = getattr(self, "statement", None)
    if st is None or st == getattr(self, "line", None):
        return None
    return {"statement_after_process_statement": str(st)[:100]}


def corpus_cases(ctx, n):
    rng = ctx.rng
    corp = [c for c in load_corpus() if c["ok"] and not c["init_kw"] and c["ddl"].strip().endswith(";")]
    usable = []
    for c in corp:
        s = solo(ctx, [c["ddl"].strip("\n")])
        if s[0] == "ok":
            ids = {(str(e.get("table_name")).lower().strip('"[]`'), str(e.get("schema")).lower().strip('"[]`')) for e in entities(s[1]) if isinstance(e, dict) and "table_name" in e}
            has_comments = len(entities(s[1])) != len(s[1])
            if not has_comments:
                usable.append((c["ddl"].strip("\n"), ids))
    ctx.obs["corpus_scripts_usable"] = len(usable)
    if len(usable) < 5:
        ctx.inconclusive_because("regression corpus too small: %d" % len(usable))
        return
    for _ in range(n):
        k = rng.randint(2, 5)
        pick = rng.sample(usable, k)
        seen, clash = set(), False
        for _d, ids in pick:
            if seen & ids:
                clash = True
            seen |= ids
        if clash:
            continue
        yield {"gen": "corpus", "groups": [[d] for d, _ in pick], "inserts": {}}


def run_shard(ctx):
    try:
        from simple_ddl_parser.parser import Parser
        contracts.post(Parser, "process_statement", _stmt_contract, "statement_buffer")
    except Exception as e:
        STATE.unattached.append("contract statement_buffer: %r" % (e,))
    rng = ctx.rng
    kinds = sorted(G.SUPPORTED)
    uns = G.all_unsupported() + [("commented_out", u) for u in G.COMMENTED_OUT]
    # (1) predecessor x successor matrix
    i = 0
    for k1, k2 in itertools.product(kinds, kinds):
        i += 1
        if not ctx.mine(i):
            continue
        r = ctx.sub_rng("pair", i)
        groups = [G.gen_group(r, k1, 0), G.gen_group(r, k2, 1)]
        order = None
        n_items = sum(len(g) for g in groups)
        gaps = list(range(n_items + 1)) if ctx.tier == "thorough" else [r.randrange(n_items + 1)]
        check_case(ctx, {"gen": "pair", "kinds": [k1, k2], "groups": groups, "inserts": {}})
        for gap in gaps:
            if r.random() < 0.25:
                ins = [r.choice(G.IGNORED)]
            else:
                ins = [r.choice(uns)[1]]
            check_case(ctx, {"gen": "pair+unsupported", "kinds": [k1, k2], "groups": groups, "inserts": {str(gap): ins}})
        ctx.obs["pair_cases"] += 1
        ctx.obs_sets["kind_pairs"].add(k1 + ">" + k2)
    # (1b) every unsupported statement directly in front of every supported kind: what the lexer was switched to by a statement that was
    #      skipped may not reach the next statement
    i = 0
    for (fam, u), k2 in itertools.product(uns, kinds):
        i += 1
        if not ctx.mine(i):
            continue
        if ctx.tier == "quick" and fam not in ("mode_word_without_continuation", "unparseable", "table_with_unknown_tail") and i % 4:
            continue
        r = ctx.sub_rng("uk", i)
        check_case(ctx, {"gen": "unsupported>kind", "kinds": [k2], "groups": [G.gen_group(r, k2, 1)], "inserts": {"0": [u]}})
        ctx.obs["unsupported_then_kind_cases"] += 1
    # (2) random sequences
    for j in range(ctx.budget(1200, 20000)):
        n = rng.randint(2, 8)
        groups = [G.gen_group(rng, rng.choice(kinds), q) for q in range(n)]
        order = scatter(rng, groups)
        inserts = {}
        for gap in range(len(order) + 1):
            if rng.random() < 0.25:
                inserts[str(gap)] = [rng.choice(uns)[1] if rng.random() < 0.8 else rng.choice(G.IGNORED)]
        case = {"gen": "random", "groups": groups, "order": order, "inserts": inserts}
        check_case(ctx, case)
        if j == 0:
            ctx.sample({"script": G.script(build(groups, inserts, order))[:1200]})
    # (3) known-finding class: SET line inside an unsupported multi-line statement
    for j in range(ctx.budget(24, 200)):
        groups = [G.gen_group(rng, rng.choice(kinds), q) for q in range(2)]
        check_case(ctx, {"gen": "set_line", "feature": "set_line", "groups": groups, "inserts": {str(rng.randrange(3)): [rng.choice(G.SET_LINE)]}})
    # (5) the same table name produced twice (re-run of CREATE TABLE IF NOT EXISTS, CREATE .. DROP): ALTER / INDEX statements written
    #     between the two belong to the definition that precedes them
    for j in range(ctx.budget(64, 1500)):
        nm = rng.choice(["t", "s.orders", "Items", '"T 1"'])
        cols = "a int, b int"
        g1 = ["CREATE TABLE %s (%s);" % (nm, cols)]
        for q in range(rng.randint(1, 3)):
            g1.append(rng.choice(["ALTER TABLE %s ADD c%d varchar(10);" % (nm, q), "CREATE INDEX ix%d_%d ON %s (a);" % (j, q, nm),
                                  "ALTER TABLE %s ADD CONSTRAINT ck%d CHECK (a > %d);" % (nm, q, q), "CREATE UNIQUE INDEX ux%d_%d ON %s (b DESC);" % (j, q, nm)]))
        g2 = [rng.choice(["DROP TABLE %s;" % nm, "CREATE TABLE IF NOT EXISTS %s (%s);" % (nm, cols), "CREATE TABLE %s (x int);" % nm,
                          g1[0], g1[0]])]          # ... or the very same statement text again
        if rng.random() < 0.3:
            g1.append(g1[-1])                      # the same ALTER / CREATE INDEX text twice in a row
        if rng.random() < 0.3 and g2[0] != g1[0]:
            groups_tail = [[g1[0]]]                # CREATE t; ...; DROP t; CREATE t (same text as the first)
        else:
            groups_tail = []
        # ... and ALTER / INDEX statements written after the later definition belong to that one
        last = groups_tail[-1] if groups_tail else g2
        if not last[0].startswith("DROP") and rng.random() < 0.6:
            col = "x" if "(x int)" in last[0] else "a"
            for q in range(rng.randint(1, 2)):
                last.append(rng.choice(["ALTER TABLE %s ADD d%d int;" % (nm, q), "CREATE INDEX jx%d_%d ON %s (%s);" % (j, q, nm, col),
                                        "ALTER TABLE %s ADD CONSTRAINT cq%d UNIQUE (%s);" % (nm, q, col)]))
            ctx.obs["redefinition_with_later_followers"] += 1
        groups = [g1, g2] + groups_tail
        if rng.random() < 0.5:
            groups.append(G.gen_group(rng, rng.choice(kinds), 7))
        inserts = {str(rng.randrange(len(g1) + 2)): [rng.choice(uns)[1]]} if rng.random() < 0.4 else {}
        check_case(ctx, {"gen": "redefinition", "groups": groups, "inserts": inserts})
        ctx.obs["redefinition_cases"] += 1
    # (6) an unsupported statement that the *lexer* rejects (known finding: it raises even when silent)
    for j in range(ctx.budget(32, 400)):
        groups = [G.gen_group(rng, rng.choice(kinds), q) for q in range(rng.randint(2, 3))]
        n_items = sum(len(g) for g in groups)
        bad = rng.choice(["SELECT a ^ b FROM t;", "UPDATE t SET a = a ^ 1;", "SELECT 2 ^ 10;", "CALL p(1 ^ 2);"])
        check_case(ctx, {"gen": "lexer_reject", "feature": "lexer_reject", "groups": groups, "inserts": {str(rng.randrange(n_items + 1)): [bad]}})
        ctx.obs["lexer_reject_cases"] += 1
    # (7) ALTER / INDEX histories of the C04 generator with unsupported statements and other groups between the statements: the tables
    #     must come out exactly as the sequential model says (an ALTER's outcome may depend on nothing but its own table's history)
    from vf.checks import c04
    for j in range(ctx.budget(240, 6000)):
        h = c04.gen_history(rng)
        stmts = list(h["stmts"])
        out = []
        for st in stmts:
            if rng.random() < 0.3:
                out.append(rng.choice(uns)[1] if rng.random() < 0.8 else rng.choice(G.IGNORED))
            out.append(st)
        check_case(ctx, {"gen": "history_model", "script": G.script(out), "model": h["model"]})
    # (4) corpus concatenations
    for case in corpus_cases(ctx, ctx.budget(300, 6000)):
        check_case(ctx, case)
        ctx.obs["corpus_concatenations"] += 1
