"""C20 child process: runs inside ONE scratch copy of the package whose parse-table cache has been
put into a given state.  It observes, with hooks on ply.yacc, what the library's own yacc.yacc()
call does (table file read / regenerated / written), then

  1. compares the LALR tables the constructed parser object actually runs with (parser.yacc.action /
     goto / productions) with tables generated afresh, in this process, from the same grammar
     (the library's own yacc.yacc arguments replayed with every cache input disabled);
  2. compares the table file on disk - before construction and after it - with the fresh tables
     whenever its signature equals the live grammar's signature;
  3. runs the given cases and writes one digest per case.

usage: python -m vf.checks.c20_child <pkg_root> <cases.json> <out.json> [unwritable]
"""
import builtins
import json
import os
import sys
import traceback


def table_file(pkg_root):
    return os.path.join(pkg_root, "simple_ddl_parser", "parsetab.py")


def load_table_file(path):
    """exec the table file's text in a private namespace (exactly what importing it does), so the
    *file on disk now* is read, not a module cached in sys.modules"""
    if not os.path.exists(path):
        return None
    ns = {}
    try:
        with open(path) as f:
            exec(compile(f.read(), path, "exec"), ns)
    except Exception as e:
        return {"error": repr(e)[:200]}
    if "_lr_signature" not in ns:
        return {"error": "no _lr_signature"}
    return {"signature": ns.get("_lr_signature"), "version": ns.get("_tabversion"), "method": ns.get("_lr_method"),
            "action": ns.get("_lr_action"), "goto": ns.get("_lr_goto"),
            "productions": [tuple(p[:4]) for p in ns.get("_lr_productions", [])]}


def prods_of(seq):
    out = []
    for p in seq:
        s = getattr(p, "str", None) or str(p)
        out.append((s, p.name, p.len, p.func))
    return out


def callables_of(seq):
    out = []
    for p in seq:
        c = getattr(p, "callable", None)
        out.append(getattr(c, "__func__", c))
    return out


def diff_tables(a_action, a_goto, a_prods, b_action, b_goto, b_prods, limit=4):
    """first few differences between two table sets, [] when identical; also the number of entries compared"""
    diffs, n = [], 0
    for label, a, b in (("action", a_action, b_action), ("goto", a_goto, b_goto)):
        if a is None or b is None:
            diffs.append("%s table missing" % label)
            continue
        for st in sorted(set(a) | set(b)):
            # a generated table has an (empty) row for every state, the table file lists only states that have entries
            ra, rb = a.get(st) or {}, b.get(st) or {}
            n += max(len(ra), len(rb))
            if ra != rb:
                for k in sorted(set(ra) | set(rb), key=str):
                    if ra.get(k) != rb.get(k) and len(diffs) < limit:
                        diffs.append("%s[%r][%r]: %r != %r" % (label, st, k, ra.get(k), rb.get(k)))
    pa, pb = list(map(tuple, a_prods)), list(map(tuple, b_prods))
    n += max(len(pa), len(pb))
    if pa != pb:
        if len(pa) != len(pb):
            diffs.append("productions: %d != %d" % (len(pa), len(pb)))
        for i, (x, y) in enumerate(zip(pa, pb)):
            if x != y and len(diffs) < limit + 2:
                diffs.append("production %d: %r != %r" % (i, x, y))
    return diffs, n


def declared_productions(pkg_root):
    """the grammar as it is WRITTEN: every alternative of every p_* docstring of every class in the package's source files (read with ast,
    nothing imported) -> {"lhs -> rhs": [where declared]}.  PLY only sees what reflection on the parser object finds; a rule function that is
    overwritten by a later def of the same name, or whose class fell out of the parser's bases, is written but never reaches the tables."""
    import ast
    out = {}
    for dp, _dn, fn in os.walk(os.path.join(pkg_root, "simple_ddl_parser")):
        for f in fn:
            if not f.endswith(".py") or f == "parsetab.py":
                continue
            path = os.path.join(dp, f)
            try:
                tree = ast.parse(open(path).read())
            except SyntaxError:
                continue
            for node in ast.walk(tree):
                if not isinstance(node, ast.ClassDef):
                    continue
                for item in node.body:
                    if not (isinstance(item, ast.FunctionDef) and item.name.startswith("p_") and item.name != "p_error"):
                        continue
                    doc = ast.get_docstring(item, clean=False)
                    if not doc:
                        continue
                    lhs = None
                    for line in doc.splitlines():
                        line = line.strip()
                        if not line:
                            continue
                        if ":" in line and not line.startswith("|"):
                            lhs, rhs = line.split(":", 1)
                            lhs = lhs.strip()
                        elif line.startswith("|") and lhs:
                            rhs = line[1:]
                        else:
                            continue
                        for alt in rhs.split("|"):
                            prod = "%s -> %s" % (lhs, " ".join(alt.split()) or "<empty>")
                            out.setdefault(prod, []).append("%s:%d %s.%s" % (os.path.relpath(path, pkg_root), item.lineno, node.name, item.name))
    return out


def main(argv):
    pkg_root, cases_file, out_file = argv[:3]
    unwritable = "unwritable" in argv[3:]
    first_ctor = {"debug": True} if "first_debug" in argv[3:] else {}      # flags of the first parser object built in this process
    res = {"crashed": None, "events": [], "phase_events": {}}
    try:
        sys.path.insert(0, pkg_root)
        from ply import yacc
        from vf.monitor import fs
        from vf.util import canon, digest

        tf = table_file(pkg_root)
        res["file_before"] = None
        before = load_table_file(tf)

        # ------------------------------------------------------------ hooks on ply.yacc
        phase = ["library"]
        ev = res["events"]

        def note(kind, **kw):
            ev.append(dict(kw, kind=kind, phase=phase[0]))

        o_read = yacc.LRTable.read_table

        def w_read(self, module):
            try:
                sig = o_read(self, module)
            except BaseException as e:
                note("read_table", outcome="raised " + type(e).__name__, module=str(module))
                raise
            note("read_table", outcome="loaded", module=str(module), sig_digest=digest(str(sig)))
            return sig
        yacc.LRTable.read_table = w_read

        o_gen = yacc.LRGeneratedTable.__init__

        def w_gen(self, *a, **kw):
            note("generate")
            return o_gen(self, *a, **kw)
        yacc.LRGeneratedTable.__init__ = w_gen

        o_write = yacc.LRGeneratedTable.write_table

        def w_write(self, tabmodule, outputdir="", signature=""):
            try:
                r = o_write(self, tabmodule, outputdir, signature)
            except BaseException as e:
                note("write_table", outcome="raised " + type(e).__name__, target=os.path.join(outputdir, str(tabmodule).split(".")[-1] + ".py"))
                raise
            note("write_table", outcome="written", target=os.path.join(outputdir, str(tabmodule).split(".")[-1] + ".py"))
            return r
        yacc.LRGeneratedTable.write_table = w_write

        o_sig = yacc.ParserReflect.signature
        sigs = []

        def w_sig(self):
            s = o_sig(self)
            sigs.append((phase[0], s))
            return s
        yacc.ParserReflect.signature = w_sig

        o_yacc = yacc.yacc
        lib_calls = []

        def w_yacc(*a, **kw):
            if phase[0] == "library":
                lib_calls.append((a, dict(kw)))
            return o_yacc(*a, **kw)
        yacc.yacc = w_yacc

        if unwritable:
            o_open = builtins.open

            def f_open(file, mode="r", *a, **kw):
                try:
                    p = os.fspath(file)
                except TypeError:
                    p = None
                if isinstance(p, str) and os.path.basename(p) == "parsetab.py" and any(c in mode for c in "wax+"):
                    note("write_fault_injected", target=p)
                    raise PermissionError(13, "Permission denied (injected by vf)", p)
                return o_open(file, mode, *a, **kw)
            builtins.open = f_open

        # ------------------------------------------------------------ the library's own construction
        try:
            import simple_ddl_parser
            from simple_ddl_parser import DDLParser
        except BaseException as e:
            # the package cannot even be imported under this cache state
            res["construct"] = "raised %s at import: %s" % (type(e).__name__, str(e)[:200])
            raise RuntimeError("construction failed: " + res["construct"])
        if not os.path.abspath(simple_ddl_parser.__file__).startswith(os.path.abspath(pkg_root)):
            raise RuntimeError("not the scratch copy: %s" % simple_ddl_parser.__file__)

        with fs.Watch() as w:
            try:
                p = DDLParser("CREATE TABLE t (a int);", **first_ctor)
                res["construct"] = "ok"
                res["first_ctor"] = first_ctor
            except BaseException as e:
                res["construct"] = "raised %s: %s" % (type(e).__name__, str(e)[:200])
                p = None
        res["files_written_during_construct"] = sorted({e[1] for e in w.events})
        if p is None:
            raise RuntimeError("construction failed: " + res["construct"])
        lib_sig = [s for ph, s in sigs if ph == "library"]
        live = getattr(p, "yacc", None)
        if live is None or not hasattr(live, "action"):
            res["live_unobservable"] = "parser object has no .yacc LR parser"
        # ------------------------------------------------------------ the grammar as written in the source vs the productions in use
        if live is not None and hasattr(live, "productions"):
            try:
                dec = declared_productions(pkg_root)
                inuse = set(str(x) for x in live.productions[1:])
                res["declared_vs_live"] = {"declared": len(dec), "in_use": len(inuse),
                                           "written_but_not_in_use": [{"production": k, "declared_at": dec[k][:2]} for k in sorted(set(dec) - inuse)][:8],
                                           "in_use_but_not_written": sorted(inuse - set(dec))[:8]}
            except Exception as e:
                res["declared_vs_live"] = {"error": "%s: %s" % (type(e).__name__, str(e)[:200])}
        # ------------------------------------------------------------ fresh generation (reference)
        phase[0] = "fresh"
        a, kw = lib_calls[-1] if lib_calls else ((), {"module": p, "debug": False})
        kw = dict(kw)
        for k in ("picklefile", "outputdir", "debugfile"):
            kw.pop(k, None)
        kw.update(write_tables=False, tabmodule="vf_no_such_table_module", optimize=False, debug=False, errorlog=yacc.NullLogger(), debuglog=yacc.NullLogger())
        kw.setdefault("module", p)
        if a:
            # positional arguments of yacc.yacc are (method, debug, module, tabmodule, start, ...): keep method/module/start only
            names = ["method", "debug", "module", "tabmodule", "start", "check_recursion", "optimize", "write_tables"]
            for nm, val in zip(names, a):
                if nm in ("method", "module", "start", "check_recursion"):
                    kw.setdefault(nm, val)
        try:
            fresh = o_yacc(**kw)
        except BaseException as e:
            # the declared grammar cannot be generated at all (the cached table file hides that): no reference tables;
            # the cache-fault states will show it as a construction failure
            fresh = None
            res["fresh_error"] = "%s: %s" % (type(e).__name__, str(e)[:200])
        fresh_sig = [s for ph, s in sigs if ph == "fresh"]
        res["fresh_generated"] = sum(1 for e in ev if e["kind"] == "generate" and e["phase"] == "fresh")
        res["signature_digest"] = digest(fresh_sig[-1]) if fresh_sig else None
        res["library_signature_equals_fresh"] = bool(lib_sig and fresh_sig and lib_sig[-1] == fresh_sig[-1])
        if fresh is None:
            live = None
            res["live_unobservable"] = "no reference tables: " + res["fresh_error"]
            f_action, f_goto, f_prods = {}, {}, []
        else:
            f_action, f_goto, f_prods = fresh.action, fresh.goto, prods_of(fresh.productions)
        res["fresh_sizes"] = {"states": len(f_action), "action_entries": sum(len(v) for v in f_action.values()),
                              "goto_entries": sum(len(v) for v in f_goto.values()), "productions": len(f_prods)}
        # 1. live tables vs fresh
        if live is not None and hasattr(live, "action"):
            d, n = diff_tables(live.action, live.goto, prods_of(live.productions), f_action, f_goto, f_prods)
            # the callables bound to the productions must be the same functions too
            lc, fc = callables_of(live.productions), callables_of(fresh.productions)
            cd = [i for i, (x, y) in enumerate(zip(lc, fc)) if x is not y]
            if cd:
                d.append("production %d bound to %r, fresh generation binds %r" % (cd[0], lc[cd[0]], fc[cd[0]]))
            res["live_vs_fresh"] = {"diffs": d, "entries_compared": n + len(lc)}
        # 2. file on disk (before and after) vs fresh, when its signature is the grammar's
        cur_sig = fresh_sig[-1] if fresh_sig else None
        after = load_table_file(tf)
        for label, tab in (("file_before", before), ("file_after", after)):
            if fresh is None:
                res[label] = {"state": "not compared (no reference tables)"}
            elif tab is None:
                res[label] = {"state": "missing"}
            elif "error" in tab:
                res[label] = {"state": "unreadable", "error": tab["error"]}
            elif tab["signature"] != cur_sig:
                res[label] = {"state": "signature differs from grammar", "version": tab["version"]}
            else:
                d, n = diff_tables(tab["action"], tab["goto"], tab["productions"], f_action, f_goto, f_prods)
                res[label] = {"state": "signature matches grammar", "version": tab["version"], "diffs": d, "entries_compared": n}
        # ------------------------------------------------------------ cases
        phase[0] = "cases"
        cases = json.load(open(cases_file))
        dg = {}
        regen_in_cases = lambda: sum(1 for e in ev if e["kind"] == "generate" and e["phase"] == "cases")
        for n_c, c in enumerate(cases):
            # when the library has to regenerate the tables at *every* construction (cache unwritable) a case costs ~1 s:
            # then only every 12th case is run in this process (the driver compares the digests that exist)
            if n_c >= 6 and regen_in_cases() >= 5 and n_c % 12:
                continue
            try:
                r = ("ok", DDLParser(c["ddl"], **(c.get("ctor") or {})).run(**(c.get("run_kw") or {})))
            except Exception as e:
                r = ("exc", type(e).__name__, str(e)[:200])
            dg[str(c["id"])] = digest(canon(r), 16)
        res["digests"] = dg
        # a second parser object in the same process (the table module may be cached in sys.modules)
        phase[0] = "second_object"
        p2 = DDLParser("CREATE TABLE t2 (a int);")
        l2 = getattr(p2, "yacc", None)
        if fresh is not None and l2 is not None and hasattr(l2, "action"):
            d, n = diff_tables(l2.action, l2.goto, prods_of(l2.productions), f_action, f_goto, f_prods)
            res["second_object_vs_fresh"] = {"diffs": d, "entries_compared": n}
        import collections
        for e in ev:
            res["phase_events"].setdefault(e["phase"], []).append(e["kind"] + (":" + e["outcome"] if "outcome" in e else ""))
        res["cases_phase_event_counts"] = dict(collections.Counter(res["phase_events"].pop("cases", [])))
        res["events"] = [e for e in ev if e["phase"] != "cases"][:40]
    except BaseException:
        res["crashed"] = traceback.format_exc()[-3000:]
    with open(out_file, "w") as f:
        json.dump(res, f, default=str)
    return 0


if __name__ == "__main__":
    sys.exit(main(sys.argv[1:]))
