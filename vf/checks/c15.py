"""C15 - parser objects do not interfere, sequentially or across threads.

Oracle: solo results (each object constructed and run in a fresh process) are the reference; every
run() return in an interleaved history - sequential operation orderings, deterministic thread
schedules driven by the baton scheduler (M-SCHED) over the three yield points the property names,
free-running threads with a 1 microsecond switch interval, and (thorough) line-level yield
injection via sys.monitoring - is compared with it.  M-OWN explains: which lexer / LR parser a
statement was actually parsed with.
"""
import itertools
import json
import os
import subprocess
import sys
import threading
import time

from vf.monitor import sched
from vf.monitor.hooks import STATE
from vf.util import canon, digest, short

LEVEL = "exploration"
WORKERS = {"quick": 8, "thorough": 16}
TIMEOUT = {"quick": 900, "thorough": 7200}
RULE = ("cases = interleaved histories of construct/run operations of 2..4 DDLParser objects that differ in DDL, normalize_names and "
        "silent (one script holds an unsupported statement, so silent is observable): (1) all 20 order-preserving interleavings of "
        "{construct, run, run again} of two objects for many object pairs, sampled orderings for 3-4 objects; (2) deterministic thread "
        "schedules: 2 threads x yield points {start, after lexer build, after parser build, before each statement} - ALL interleavings "
        "for scripts of <= 3 statements, seeded samples for 3-4 threads; (3) free-running stress, 8-16 threads, "
        "sys.setswitchinterval(1e-6); (4, thorough) line-level sleep(0) injection in parser.py / ddl_parser.py through sys.monitoring. "
        "Non-trivial = a history with >= 2 live objects; distinct = distinct schedule (operation order / yield-point trace)."
        " Added after seeded defects: twin specs (same text, different silent / normalize_names / debug / input.regex), a spec that alters a table only another spec defines, word echo (58 statement keywords first met as names in 22 name positions by other objects, then used as keywords); pairs in a fresh interpreter whose first object uses rarely used constructor options (log_level, log_file, debug); concurrent run(dump=True) into one not-yet-existing directory; a blocked operation is a verdict; LIKE / CLONE tables that an ALTER adds columns to; parse_from_file histories over files of different encodings.")
ASSUMPTIONS = ["schedules are enumerated at statement granularity; finer interleavings are only sampled (free-running and line-level injection)",
               "CPython with the GIL (no claim about free-threaded builds)"]
MIN_EVENTS = {"run_return": 200}
HOOKS = {"prod": False}

SPECS = [
    {"ddl": 'CREATE TABLE "A1" ("x" int);\nCREATE TABLE "A2" ("y" int) garbage (;\n', "ctor": {"normalize_names": True, "silent": True}},
    {"ddl": 'CREATE TABLE "B1" ("p" int NOT NULL);\nCREATE SEQUENCE "B2" START 3;\n', "ctor": {"normalize_names": False, "silent": True}},
    {"ddl": "CREATE TABLE c1 (a int, b varchar(5) DEFAULT 'c');\nSELECT 1 FROM c1;\nCREATE TABLE c2 (z date);\n", "ctor": {"silent": False}},
    {"ddl": "CREATE TABLE d1 (a int CHECK (a > 0), m MAP<STRING, ARRAY<INT>>);\n", "ctor": {}},
    {"ddl": "CREATE TABLE e1 LIKE s.other;\nCREATE TABLE [e2] ([k] int PRIMARY KEY);\nALTER TABLE e2 ADD CONSTRAINT fk FOREIGN KEY (k) REFERENCES p (q);\n", "ctor": {"normalize_names": True}},
    {"ddl": "CREATE SEQUENCE s.f1 INCREMENT BY 2 START WITH 5 NO MAXVALUE CACHE;\nCREATE TABLE f2 (increment int, start int);\n", "ctor": {}},
    {"ddl": "CREATE TABLE g1 (a int, b string) PARTITIONED BY (c int) STORED AS PARQUET;\n", "ctor": {}, "run": {"output_mode": "hql"}},
    {"ddl": "CREATE TYPE h1 AS ENUM ('a', 'b');\nCREATE TABLE `h2` (`a` h1 NOT NULL, `b` int);\nCREATE INDEX hx ON h2 (b DESC);\n", "ctor": {"normalize_names": False}},
    {"ddl": "CREATE TABLE i1 (a int) ENGINE=InnoDB;\nCREATE VIEW v AS SELECT 1;\n", "ctor": {"silent": True}, "run": {"output_mode": "mysql", "group_by_type": True}},
    {"ddl": "-- leading comment\nCREATE TABLE j1 (\n  a int, -- trailing a\n  b int\n);\n", "ctor": {"normalize_names": True}},
    {"ddl": "GRANT SELECT ON t TO joe;\nCREATE TABLE k1 (a decimal(10,2) NOT NULL UNIQUE);\nDROP TABLE k0;\n", "ctor": {"silent": False}},
    {"ddl": 'CREATE TABLE "L 1" ("a b" int, "c" varchar(3));\n', "ctor": {"normalize_names": True}},
    # twins: the *same statement text* in objects that differ only in per-object settings / per-object lexer state, so anything
    # shared between objects and keyed by the text alone (a cache, a registry) shows
    {"ddl": 'CREATE TABLE "A1" ("x" int);\nCREATE TABLE "A2" ("y" int) garbage (;\n', "ctor": {"normalize_names": False, "silent": True}},
    {"ddl": 'CREATE TABLE "A1" ("x" int);\nCREATE TABLE "A2" ("y" int) garbage (;\n', "ctor": {"normalize_names": True, "silent": False}},
    {"ddl": "CREATE TABLE c1 (a int, b varchar(5) DEFAULT 'c');\nSELECT 1 FROM c1;\nCREATE TABLE c2 (z date);\n", "ctor": {"silent": True}},
    {"ddl": "GRANT SELECT ON t TO joe;\nCREATE TABLE k1 (a decimal(10,2) NOT NULL UNIQUE);\nDROP TABLE k0;\nCREATE VIEW v AS SELECT 1;\n", "ctor": {"silent": True}},
    {"ddl": "GRANT SELECT ON t TO joe;\nCREATE TABLE k1 (a decimal(10,2) NOT NULL UNIQUE);\nDROP TABLE k0;\nCREATE VIEW v AS SELECT 1;\n", "ctor": {"silent": False}},
    {"ddl": "CREATE EXTERNAL TABLE r1 (a string, b string)\nROW FORMAT SERDE 'org.apache.hadoop.hive.serde2.RegexSerDe'\nWITH SERDEPROPERTIES (\n  \"input.regex\" = \"([0-9]+);(.*)\"\n)\nSTORED AS TEXTFILE;\n",
     "ctor": {}, "run": {"output_mode": "hql"}},
    {"ddl": "CREATE EXTERNAL TABLE r1 (a string, b string)\nROW FORMAT SERDE 'org.apache.hadoop.hive.serde2.RegexSerDe'\nWITH SERDEPROPERTIES (\n  \"input.regex\" = \"([^ ]*) ([^ ]*)\"\n)\nSTORED AS TEXTFILE;\n",
     "ctor": {}, "run": {"output_mode": "hql"}},
    {"ddl": 'CREATE TABLE "B1" ("p" int NOT NULL);\nCREATE SEQUENCE "B2" START 3;\n', "ctor": {"normalize_names": True, "silent": True}},
    {"ddl": "CREATE TABLE g1 (a int, b string) PARTITIONED BY (c int) STORED AS PARQUET;\n", "ctor": {"normalize_names": True}, "run": {"output_mode": "sql"}},
    # objects constructed with debug=True (documented: implies silent=False) must still be independent of their neighbours
    {"ddl": 'CREATE TABLE "sales"."orders" ("id" int, "customer" varchar(9));\nCREATE TABLE "sales"."order_lines" ("order_id" int, "qty" int);\n',
     "ctor": {"debug": True, "normalize_names": True}},
    {"ddl": 'CREATE TABLE "sales"."orders" ("id" int, "customer" varchar(9));\nCREATE TABLE "sales"."order_lines" ("order_id" int, "qty" int);\n',
     "ctor": {"debug": False, "normalize_names": False, "silent": True}},
    # more objects that are run in a dialect output mode (the dialect class / field filters are per-run state of the output stage)
    {"ddl": "CREATE TABLE rs1 (a int ENCODE zstd, b varchar(9)) DISTSTYLE KEY DISTKEY (a);\nCREATE TABLE rs2 (z int);\n", "ctor": {}, "run": {"output_mode": "redshift"}},
    {"ddl": "CREATE TABLE m1 (a int AUTO_INCREMENT, b int) ENGINE=InnoDB DEFAULT CHARSET=utf8 AUTO_INCREMENT=7;\nCREATE TABLE m2 (q int);\n", "ctor": {}, "run": {"output_mode": "mysql"}},
    {"ddl": "CREATE TABLE o1 (a NUMBER(*,0), b VARCHAR2(30 CHAR)) TABLESPACE users STORAGE (INITIAL 64K);\n", "ctor": {}, "run": {"output_mode": "oracle", "group_by_type": True}},
    {"ddl": "CREATE TABLE p.d.bq1 (a INT64, b STRING) PARTITION BY a;\nCREATE SEQUENCE ds.s1 START 1;\n", "ctor": {}, "run": {"output_mode": "bigquery"}},
    # B only alters / indexes a table that only A defines: alone it raises (table not defined in that script) - also after A has run
    {"ddl": "CREATE TABLE xorders (id int, cust int);\nCREATE TABLE xcustomers (id int);\n", "ctor": {}},
    {"ddl": "CREATE TABLE xcustomers2 (id int);\nALTER TABLE xorders ADD CONSTRAINT fk_x FOREIGN KEY (cust) REFERENCES xcustomers (id);\nCREATE INDEX xo_idx ON xorders (cust);\n", "ctor": {}},
]
SPECS += [
    # a table created without a column list (LIKE / CLONE) that an ALTER of the same script then adds columns to - next to another LIKE table
    {"ddl": "CREATE TABLE lk1 LIKE s.src;\nALTER TABLE lk1 ADD loaded_at timestamp;\nALTER TABLE lk1 ADD CONSTRAINT fk_l FOREIGN KEY (loaded_at) REFERENCES p (k);\n", "ctor": {}},
    {"ddl": "CREATE TABLE lk2 (LIKE src2);\nCREATE TABLE lk3 CLONE s3;\nCREATE TABLE lk4 LIKE s.src4;\n", "ctor": {}},
    # a character the lexer does not know (raises also when silent on the pinned tree): every object must fare as it does alone
    {"ddl": "CREATE TABLE xr1 (x int, CONSTRAINT ck CHECK (x ^ 3 < 9));\n", "ctor": {"silent": True}},
    {"ddl": "CREATE TABLE xr2 (id int PRIMARY KEY, flags int DEFAULT 0, CHECK (flags ^ 255 >= 0));\n", "ctor": {"silent": True}},
]
SPECS += [
    # typographic quotes (the pre-processor turns them into plain ones): two scripts that both need that translation
    {"ddl": "CREATE TABLE tq1 (a varchar(10) DEFAULT \u2018new\u2019 COMMENT \u2018first table\u2019, b int);\n", "ctor": {}, "run": {"output_mode": "hql"}},
    {"ddl": "CREATE TABLE tq2 (c varchar(10) DEFAULT \u2018old\u2019, d int COMMENT \u2018second table\u2019);\nCREATE TABLE tq3 (e int);\n", "ctor": {}, "run": {"output_mode": "hql"}},
]
TWINS = [(0, 12), (0, 13), (12, 13), (2, 14), (15, 16), (17, 18), (1, 19), (6, 20), (21, 22), (21, 1), (27, 28), (29, 30), (29, 4), (31, 32)]


def solo_references():
    """each spec constructed and run as the only/first use in a fresh interpreter"""
    code = (
        "import json, sys\n"
        "from simple_ddl_parser import DDLParser\n"
        "specs = json.loads(sys.stdin.read())\n"
        "out = []\n"
        "for s in specs:\n"
        "    try:\n"
        "        out.append(['ok', DDLParser(s['ddl'], **s.get('ctor', {})).run(**s.get('run', {}))])\n"
        "    except Exception as e:\n"
        "        out.append(['exc', type(e).__name__])\n"
        "print(json.dumps(out))\n"
    )
    refs = []
    # one fresh process per spec: "as if it were the only parser in the process"
    for s in SPECS:
        r = subprocess.run([sys.executable, "-B", "-c", code], input=json.dumps([s]), capture_output=True, text=True, timeout=120,
                           env=dict(os.environ))
        refs.append(json.loads(r.stdout.strip().splitlines()[-1])[0])
    return refs


def solo_reference_of(spec):
    """one spec constructed and run as the only use of the package in a fresh interpreter"""
    code = ("import json, sys\nfrom simple_ddl_parser import DDLParser\ns = json.loads(sys.stdin.read())\n"
            "try:\n    out = ['ok', DDLParser(s['ddl'], **s.get('ctor', {})).run(**s.get('run', {}))]\n"
            "except Exception as e:\n    out = ['exc', type(e).__name__]\nprint(json.dumps(out))\n")
    r = subprocess.run([sys.executable, "-B", "-c", code], input=json.dumps(spec), capture_output=True, text=True, timeout=120, env=dict(os.environ))
    return json.loads(r.stdout.strip().splitlines()[-1])


FIRST_OBJECTS = [{"log_level": 10}, {"log_level": "DEBUG"}, {"debug": True}, {"silent": False}, {"normalize_names": True}, {"log_level": 50}, {"log_file": "vf_first.log"}]


def first_in_process(ctx, refs, a_ctor, b_idx):
    """a fresh interpreter in which parser A (rarely used constructor options) is the FIRST object ever built, then B: whatever A set up
    process-wide (logging configuration, module state) must leave B as it is alone"""
    import tempfile
    code = ("import json, sys\nfrom simple_ddl_parser import DDLParser\na, b = json.loads(sys.stdin.read())\n"
            "try:\n    DDLParser(a['ddl'], **a['ctor']).run()\nexcept Exception:\n    pass\n"
            "try:\n    out = ['ok', DDLParser(b['ddl'], **b.get('ctor', {})).run(**b.get('run', {}))]\n"
            "except Exception as e:\n    out = ['exc', type(e).__name__]\nprint('VFRESULT' + json.dumps(out))\n")
    a = {"ddl": "CREATE TABLE first_t (a int, b varchar(3));\n", "ctor": a_ctor}
    d = tempfile.mkdtemp(prefix="vf_c15f_")
    try:
        r = subprocess.run([sys.executable, "-B", "-c", code], input=json.dumps([a, SPECS[b_idx]]), capture_output=True, text=True, timeout=120, env=dict(os.environ), cwd=d)
    finally:
        import shutil
        shutil.rmtree(d, ignore_errors=True)
    ctx.evaluated()
    ctx.nontrivial_case(digest("first|%s|%d" % (canon(a_ctor), b_idx)))
    ctx.obs["first_object_pairs"] += 1
    lines = [l for l in r.stdout.splitlines() if l.startswith("VFRESULT")]
    if not lines:
        ctx.inconclusive_because("first-object pair produced no result: " + (r.stderr or r.stdout)[-200:])
        return
    got = json.loads(lines[-1][len("VFRESULT"):])
    if got != refs[b_idx]:
        ctx.violation("depends_on_first_object_of_the_process", {"gen": "first_in_process", "first_ctor": a_ctor, "spec": b_idx},
                      {"first_object_ctor": a_ctor, "observed": short(got, 300), "alone": short(refs[b_idx], 300)})


FILES = {
    "legacy.sql": "CREATE TABLE lg (a varchar(9) DEFAULT 'caf\xe9', b int);\n".encode("latin-1"),              # not valid UTF-8
    "utf8.sql": "CREATE TABLE u8 (a varchar(20) DEFAULT 'cr\u00e8me', b int COMMENT 'na\u00efve \u2013 cl\u00e9');\n".encode("utf-8"),
    "ascii.sql": b"CREATE TABLE asc1 (a int, b varchar(3) NOT NULL);\nCREATE SEQUENCE sq START 5;\n",
    "utf8_bom.sql": "\ufeffCREATE TABLE bm (a int);\n".encode("utf-8"),
}


def file_histories(ctx):
    """parse_from_file called for several files in one process (each call builds its own parser): what a call returns - or raises - may not
    depend on which files were read before; the reference is each file read as the only one in a fresh interpreter"""
    import shutil
    import tempfile
    d = tempfile.mkdtemp(prefix="vf_c15p_")
    try:
        for n, b in FILES.items():
            with open(os.path.join(d, n), "wb") as f:
                f.write(b)
        code = ("import json, sys\nfrom simple_ddl_parser import parse_from_file\np, kw = json.loads(sys.stdin.read())\n"
                "try:\n    out = ['ok', parse_from_file(p, **kw)]\nexcept Exception as e:\n    out = ['exc', type(e).__name__]\nprint('VFRESULT' + json.dumps(out))\n")
        variants = [{}, {"parser_settings": {"normalize_names": True}, "group_by_type": True}]
        refs = {}
        for n in FILES:
            for vi, kw in enumerate(variants):
                r = subprocess.run([sys.executable, "-B", "-c", code], input=json.dumps([os.path.join(d, n), kw]), capture_output=True, text=True, timeout=120, env=dict(os.environ), cwd=d)
                lines = [l for l in r.stdout.splitlines() if l.startswith("VFRESULT")]
                if not lines:
                    ctx.inconclusive_because("file reference produced no result: " + (r.stderr or "")[-200:])
                    return
                refs[(n, vi)] = json.loads(lines[-1][len("VFRESULT"):])
        from simple_ddl_parser import parse_from_file
        rng = ctx.sub_rng("files")
        for rep in range(6):
            order = list(FILES) * 2
            rng.shuffle(order)
            if rep == 0:
                order = ["legacy.sql", "utf8.sql", "ascii.sql", "utf8.sql", "utf8_bom.sql", "legacy.sql", "utf8.sql"]
            for n in order:
                vi = rng.randrange(len(variants))
                try:
                    got = ["ok", json.loads(json.dumps(parse_from_file(os.path.join(d, n), **variants[vi])))]
                except Exception as e:
                    got = ["exc", type(e).__name__]
                ctx.evaluated()
                ctx.obs["file_history_steps"] += 1
                ctx.nontrivial_case(digest("files|%d|%s|%d" % (rep, n, vi)))
                if got != refs[(n, vi)]:
                    ctx.violation("file_result_depends_on_files_read_before", {"gen": "file_histories"}, {"file": n, "arguments": variants[vi], "order": order,
                                                                                                        "observed": short(got, 300), "alone": short(refs[(n, vi)], 300)})
                    return
    finally:
        shutil.rmtree(d, ignore_errors=True)


def word_echo(ctx, word, use, mode, how):
    """some objects meet `word` where a name is expected; another object that uses it as a keyword must read it as if it were alone"""
    from vf.gen import kwuses
    spec = {"ddl": use + "\n", "ctor": {"silent": True}, "run": ({"output_mode": mode} if mode else {})}
    ref = solo_reference_of(spec)
    ctx.obs["solo_references"] += 1
    if ref[0] != "ok" or not ref[1]:
        ctx.inconclusive_because("keyword-use script for %s yields nothing alone" % word)
        return
    w = kwuses.spell(word, how)
    for ti, tmpl in enumerate(kwuses.IDENT_USES):
        ctx.evaluated()
        ctx.nontrivial_case(digest("echo|%s|%s|%d" % (word, how, ti)))
        a_spec = {"ddl": tmpl.format(W=w) + "\n", "ctor": {"silent": True, "normalize_names": bool(ti % 2)}}
        early = construct(spec) if ti % 3 == 0 else None          # the keyword user may exist before the name user runs
        try:
            do_run(construct(a_spec), a_spec)
        except Exception:
            pass                                                  # the name user's own fate is not the subject
        got = do_run(early if early is not None else construct(spec), spec)
        ctx.obs["word_echo_pairs"] += 1
        if got != ref:
            ctx.violation("keyword_reading_depends_on_names_other_objects_saw", {"gen": "word_echo", "word": word, "spelling": how, "name_user": a_spec, "keyword_user": spec},
                          {"observed": short(got, 300), "alone": short(ref, 300)})
            return


def do_run(p, spec):
    try:
        return ["ok", json.loads(json.dumps(p.run(**spec.get("run", {}))))]
    except Exception as e:
        return ["exc", type(e).__name__]


def construct(spec):
    from simple_ddl_parser import DDLParser
    return DDLParser(spec["ddl"], **spec.get("ctor", {}))


def explain(n_before):
    return STATE.own_violations[-2:] if STATE.counters.get("own_violation", 0) > n_before else None


# ---------------------------------------------------------------- (1) sequential operation interleavings
def seq_case(ctx, refs, idxs, order):
    """order: sequence of object positions; k-th occurrence of a position = its k-th operation (construct, run, run)"""
    ctx.evaluated()
    ctx.nontrivial_case(digest("seq|%s|%s" % (idxs, order)))
    objs, step = {}, {}
    nown = STATE.counters.get("own_violation", 0)
    for pos in order:
        k = step.get(pos, 0)
        step[pos] = k + 1
        spec = SPECS[idxs[pos]]
        if k == 0:
            try:
                objs[pos] = construct(spec)
            except Exception as e:
                ctx.violation("construct_raises", {"gen": "sequential", "specs": idxs, "order": order}, {"exception": type(e).__name__, "message": str(e)[:200]})
                return
        else:
            got = do_run(objs[pos], spec)
            ctx.obs["interleaved_runs_compared"] += 1
            if got != refs[idxs[pos]]:
                ctx.violation("sequential_interference", {"gen": "sequential", "specs": idxs, "order": order},
                              {"object": pos, "operation": k, "observed": short(got, 300), "solo": short(refs[idxs[pos]], 300), "M-OWN": explain(nown)})
                return
    ctx.obs_sets["sequential_orders"].add(digest("%s|%s" % (idxs, order), 10))


def orderings(counts):
    """all order-preserving interleavings of sequences with the given lengths"""
    items = []
    for i, c in enumerate(counts):
        items += [i] * c
    seen = set()
    for perm in set(itertools.permutations(items)):
        yield list(perm)


# ---------------------------------------------------------------- (2) deterministic thread schedules
ABORT = [False]      # set once a blocked operation was witnessed: the process then holds stuck daemon threads, the remaining cases are skipped
BLOCKED = []


def slices_of(spec_idx):
    """number of scheduler slices a construct+run of this spec takes (start + yield points), measured"""
    if ABORT[0]:
        return 1
    res, trace, prob = sched.run_schedule([0] * 64, [lambda: do_run(construct(SPECS[spec_idx]), SPECS[spec_idx])])
    blocked = [x for x in prob if isinstance(x, dict)]
    if blocked:
        # a single object, alone in its thread, never returns: something an earlier object of this process did holds it up
        BLOCKED.append({"spec": spec_idx, "blocked": blocked[0], "trace": trace[-8:]})
        ABORT[0] = True
    return len(trace)


def sched_case(ctx, refs, idxs, schedule, fine=False):
    if ABORT[0]:
        return
    ctx.evaluated()
    ctx.nontrivial_case(digest("sched|%s|%s|%s" % (idxs, schedule, fine)))
    nown = STATE.counters.get("own_violation", 0)
    workers = [(lambda i=i: do_run(construct(SPECS[i]), SPECS[i])) for i in idxs]
    sched.FINE[0] = bool(fine)
    try:
        results, trace, problems = sched.run_schedule(schedule, workers)
    finally:
        sched.FINE[0] = False
    if problems:
        blocked = [x for x in problems if isinstance(x, dict)]
        if blocked:
            # an operation of one object never returns once another object has done something (e.g. raised): that is interference
            ctx.violation("operation_blocked_by_another_object", {"gen": "schedule", "specs": idxs, "schedule": schedule, "fine": bool(fine)},
                          {"blocked": blocked[0], "trace": trace[-12:]})
            ABORT[0] = True
            return
        ctx.inconclusive_because("scheduler: %s (specs %s schedule %s)" % (problems, idxs, schedule))
        return
    ctx.obs["scheduled_executions"] += 1
    ctx.obs_sets["distinct_yield_point_traces"].add(digest(canon([idxs, trace]), 12))
    for t, (i, res) in enumerate(zip(idxs, results)):
        got = res[1] if res and res[0] == "ok" else ["exc", res[1] if res else "no result"]
        if got != refs[i]:
            ctx.violation("thread_schedule_interference", {"gen": "schedule", "specs": idxs, "schedule": schedule, "fine": bool(fine)},
                          {"thread": t, "observed": short(got, 300), "solo": short(refs[i], 300), "trace": trace[:24], "M-OWN": explain(nown)})
            return


# ---------------------------------------------------------------- (3) free-running stress
def stress(ctx, refs, nthreads, rounds, label):
    if ABORT[0]:
        return
    errs = []
    old = sys.getswitchinterval()
    sys.setswitchinterval(1e-6)
    nown = STATE.counters.get("own_violation", 0)
    done = [0]

    def body(t):
        for r in range(rounds):
            i = (t + r * 5) % len(SPECS)
            try:
                got = do_run(construct(SPECS[i]), SPECS[i])
            except Exception as e:
                got = ["exc", "construct:" + type(e).__name__]
            done[0] += 1
            if got != refs[i] and len(errs) < 10:
                errs.append({"thread": t, "round": r, "spec": i, "observed": short(got, 200), "solo": short(refs[i], 200)})

    ts = [threading.Thread(target=body, args=(t,), daemon=True) for t in range(nthreads)]
    t0 = time.time()
    for t in ts:
        t.start()
    deadline = time.time() + 300
    for t in ts:
        t.join(max(0.1, deadline - time.time()))
    sys.setswitchinterval(old)
    alive = [t for t in ts if t.is_alive()]
    if alive:
        s1 = [sched.stack_of(t) for t in alive]
        time.sleep(2.0)
        s2 = [sched.stack_of(t) for t in alive]
        if s1 == s2 and len(alive) < len(ts):
            # every thread that is still alive sits on the same line as two seconds ago while the other threads have finished
            ctx.violation("operation_blocked_by_another_object", {"gen": "stress", "threads": nthreads, "rounds": rounds, "label": label},
                          {"threads_blocked": len(alive), "threads_finished": len(ts) - len(alive), "stack": s1[0]})
            ABORT[0] = True
    ctx.evaluated(done[0])
    ctx.obs["stress_runs_compared:" + label] += done[0]
    ctx.obs["stress_threads"] = max(ctx.obs.get("stress_threads", 0), nthreads)
    if any(t.is_alive() for t in ts) and not ABORT[0]:
        ctx.inconclusive_because("stress threads did not finish")
    if errs:
        ctx.violation("free_running_thread_interference", {"gen": "stress", "threads": nthreads, "rounds": rounds, "label": label},
                      {"first_errors": errs[:3], "M-OWN": explain(nown)})


def dump_stress(ctx, nthreads, rounds):
    """objects in concurrent threads asked to dump into the SAME directory that does not exist yet (a new one per round, distinct file names):
    every run() must return what it returns alone and every dump file must hold its own result"""
    if ABORT[0]:
        return
    import shutil
    import tempfile
    root = tempfile.mkdtemp(prefix="vf_c15d_")
    specs = [{"ddl": "CREATE TABLE du%d (a int, b varchar(%d));\nCREATE SEQUENCE sq%d START %d;\n" % (t, t + 1, t, t)} for t in range(nthreads)]
    alone = []
    for t, sp in enumerate(specs):
        d0 = os.path.join(root, "alone%d" % t)
        try:
            alone.append(json.loads(json.dumps(construct(sp).run(dump=True, dump_path=d0, file_path="f%d.sql" % t))))
        except Exception as e:
            # a plain two-statement script fails although nothing runs beside it: only objects that ran EARLIER in this process can be the cause
            ctx.violation("sequential_interference", {"gen": "dump_stress", "threads": nthreads, "rounds": rounds},
                          {"object": "a fresh parser on %r after the other objects of this process" % sp["ddl"][:60], "observed": ["exc", type(e).__name__, str(e)[:120]]})
            shutil.rmtree(root, ignore_errors=True)
            return
    errs = []
    old = sys.getswitchinterval()
    sys.setswitchinterval(1e-6)
    try:
        for r in range(rounds):
            d = os.path.join(root, "round%d" % r, "schemas")
            barrier = threading.Barrier(nthreads)
            objs = [construct(sp) for sp in specs]

            def body(t):
                try:
                    barrier.wait(30)
                    got = ["ok", json.loads(json.dumps(objs[t].run(dump=True, dump_path=d, file_path="f%d.sql" % t)))]
                except Exception as e:
                    got = ["exc", type(e).__name__, str(e)[:120]]
                if got != ["ok", alone[t]] and len(errs) < 10:
                    errs.append({"round": r, "thread": t, "observed": short(got, 200)})
                else:
                    try:
                        on_disk = json.load(open(os.path.join(d, "f%d_schema.json" % t)))
                        if on_disk != alone[t] and len(errs) < 10:
                            errs.append({"round": r, "thread": t, "dump_file_differs": short(on_disk, 200)})
                    except Exception as e:
                        if len(errs) < 10:
                            errs.append({"round": r, "thread": t, "dump_file": "%s: %s" % (type(e).__name__, str(e)[:100])})

            ts = [threading.Thread(target=body, args=(t,), daemon=True) for t in range(nthreads)]
            for t in ts:
                t.start()
            for t in ts:
                t.join(60)
            ctx.obs["concurrent_dump_runs"] += nthreads
            if errs:
                break
    finally:
        sys.setswitchinterval(old)
        shutil.rmtree(root, ignore_errors=True)
    ctx.evaluated(rounds * nthreads)
    if errs:
        ctx.violation("concurrent_dump_interference", {"gen": "dump_stress", "threads": nthreads, "rounds": rounds}, {"first_errors": errs[:3]})


def with_line_injection(ctx, refs, seed):
    """thorough: sleep(0) at random statement starts of parser.py / ddl_parser.py (sys.monitoring LINE events)"""
    mon = getattr(sys, "monitoring", None)
    if mon is None:
        ctx.notes.append("sys.monitoring unavailable: line-level injection skipped")
        return
    import random
    rng = random.Random(seed)
    lock = threading.Lock()
    targets = ("simple_ddl_parser/parser.py", "simple_ddl_parser/ddl_parser.py", "simple_ddl_parser/output/core.py")
    count = [0]

    def cb(code, line):
        if not code.co_filename.endswith(targets):
            return mon.DISABLE
        with lock:
            hit = rng.random() < 0.05
        if hit:
            count[0] += 1
            time.sleep(0)

    tool = mon.PROFILER_ID
    try:
        mon.use_tool_id(tool, "vf-c15")
    except ValueError:
        ctx.notes.append("monitoring tool id busy")
        return
    try:
        mon.register_callback(tool, mon.events.LINE, cb)
        mon.set_events(tool, mon.events.LINE)
        stress(ctx, refs, 8, 12, "line_injection")
    finally:
        mon.set_events(tool, 0)
        mon.register_callback(tool, mon.events.LINE, None)
        mon.free_tool_id(tool)
    ctx.obs["line_level_yields_injected"] += count[0]


def check_case(ctx, case):
    if case.get("gen") == "file_histories":
        return file_histories(ctx)
    if case.get("gen") == "dump_stress":
        return dump_stress(ctx, case["threads"], case["rounds"] * 3)
    if case.get("gen") == "first_in_process":
        return first_in_process(ctx, solo_references(), case["first_ctor"], case["spec"])
    if case.get("gen") == "word_echo":
        from vf.gen import kwuses
        use, mode = kwuses.USES[case["word"]]
        return word_echo(ctx, case["word"], use, mode, case["spelling"])
    refs = solo_references()
    missing = sched.install()
    g = case.get("gen")
    if g == "sequential":
        seq_case(ctx, refs, case["specs"], case["order"])
    elif g == "schedule":
        sched_case(ctx, refs, case["specs"], case["schedule"], fine=case.get("fine", False))
    elif g == "stress":
        for _ in range(5):
            stress(ctx, refs, case["threads"], case["rounds"], "replay")


def run_shard(ctx):
    rng = ctx.rng
    refs = solo_references()
    for i, r in enumerate(refs):
        ctx.obs["solo_references"] += 1
    missing = sched.install()
    for m in missing:
        STATE.unattached.append(m)
    n = len(SPECS)
    pairs = [(a, b) for a in range(n) for b in range(n) if a != b]
    # (1) sequential: all 20 interleavings of (c, r, r) x (c, r, r) for object pairs
    i = 0
    pair_budget = 40 if ctx.tier == "quick" else len(pairs)
    twin_pairs = [(a, b) for a, b in TWINS] + [(b, a) for a, b in TWINS]
    chosen = (rng.sample(pairs, min(len(pairs), pair_budget)) if ctx.tier == "quick" else pairs)
    for a, b in twin_pairs + [p for p in chosen if p not in twin_pairs]:
        if (a, b) in twin_pairs:
            ctx.obs["twin_pairs_same_text_different_settings"] += 1
        i += 1
        if not ctx.mine(i):
            continue
        for order in orderings([3, 3]):
            seq_case(ctx, refs, [a, b], order)
    for j in range(ctx.budget(120, 6000)):
        k = rng.choice([3, 4])
        idxs = rng.sample(range(n), k)
        items = []
        for pos in range(k):
            items += [pos] * 3
        rng.shuffle(items)
        seq_case(ctx, refs, idxs, items)
    # (2) deterministic thread schedules
    nsl = {}
    sched_pairs = [(0, 1), (1, 5), (3, 6), (9, 11), (2, 4), (7, 8), (10, 0), (4, 7), (5, 2), (6, 9), (8, 3), (11, 10)]
    budget_pairs = (sched_pairs[:4] + [(2, 14), (16, 15)]) if ctx.tier == "quick" else sched_pairs + list(TWINS)
    job = 0
    for a, b in budget_pairs:
        for x in (a, b):
            if x not in nsl:
                nsl[x] = slices_of(x)
        la, lb = nsl[a], nsl[b]
        for combo in itertools.combinations(range(la + lb), la):
            job += 1
            if not ctx.mine(job):
                continue
            schedule = [1] * (la + lb)
            for c in combo:
                schedule[c] = 0
            sched_case(ctx, refs, [a, b], schedule)
        ctx.obs_sets["exhaustively_scheduled_pairs"].add("%d,%d:%dx%d" % (a, b, la, lb))
    for j in range(ctx.budget(60, 3000)):
        k = rng.choice([3, 4])
        idxs = rng.sample(range(n), k)
        for x in idxs:
            if x not in nsl:
                nsl[x] = slices_of(x)
        schedule = []
        for t, x in enumerate(idxs):
            schedule += [t] * nsl[x]
        rng.shuffle(schedule)
        sched_case(ctx, refs, idxs, schedule)
    # (2b) sampled schedules with the finer yield points of the output stage (after Output() is built, before each statement is
    #      formatted, before regrouping) for objects that are run in different output modes
    moded = [i for i, sp in enumerate(SPECS) if sp.get("run", {}).get("output_mode")]
    fine_slices = {}
    for j in range(ctx.budget(120, 4000)):
        k = rng.choice([2, 2, 3])
        idxs = rng.sample(moded, min(k, len(moded))) if rng.random() < 0.7 else rng.sample(range(n), k)
        sched.FINE[0] = True
        try:
            for x in idxs:
                if x not in fine_slices:
                    fine_slices[x] = slices_of(x)
        finally:
            sched.FINE[0] = False
        schedule = []
        for t, x in enumerate(idxs):
            schedule += [t] * fine_slices[x]
        rng.shuffle(schedule)
        sched_case(ctx, refs, idxs, schedule, fine=True)
        ctx.obs["fine_grained_schedules"] += 1
    # (4) word echo: every statement keyword first met as a NAME by other objects, then used as a keyword
    from vf.gen import kwuses
    jj = 0
    for word, (use, mode) in sorted(kwuses.USES.items()):
        for how in (("lower", "upper") if ctx.tier == "quick" else ("lower", "upper", "cap")):
            jj += 1
            if ctx.mine(jj):
                word_echo(ctx, word, use, mode, how)
    # (5) B after a first object with rarely used constructor options, each pair in its own interpreter
    jj = 0
    for a_ctor in FIRST_OBJECTS:
        for b_idx in (0, 2, 10, 12, 14, 21):
            jj += 1
            if ctx.mine(jj):
                first_in_process(ctx, refs, a_ctor, b_idx)
    if ctx.shard == 0 or ctx.tier == "thorough":
        file_histories(ctx)
    for bl in BLOCKED:
        ctx.violation("operation_blocked_by_another_object", {"gen": "single_object_in_a_thread", "spec": bl["spec"]}, bl)
    del BLOCKED[:]
    dump_stress(ctx, 6, 40 if ctx.tier == "quick" else 400)
    # (3) free-running stress
    if ctx.tier == "quick":
        stress(ctx, refs, 8, 10, "free_running")
    else:
        stress(ctx, refs, 16, 40, "free_running")
        stress(ctx, refs, 8, 100, "free_running")
        with_line_injection(ctx, refs, ctx.seed * 1000 + ctx.shard)
    ctx.sample({"specs": [dict(s, ddl=s["ddl"][:80]) for s in SPECS[:3]], "example_schedule": "thread ids in baton order, e.g. [0,1,1,0,0,1,...] over yield points start/after_lexer_build/after_parser_build/before_statement"})
