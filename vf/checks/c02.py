"""C02 - keys, uniqueness, checks and foreign keys land on the right columns.

Oracle: reference model (table_expect) for primary_key / nullable / unique flags / constraints /
checks / references + a runtime contract at the exit of BaseData.__post_init__ (every primary-key
column of the table object is non-nullable).
"""
import copy

from vf.gen import schema as S
from vf.gen.render import finish_script, multiline_table, render
from vf.monitor import contracts
from vf.monitor.hooks import STATE
from vf.run import entities, parse
from vf.util import digest, short

LEVEL = "exploration"
WORKERS = {"quick": 8, "thorough": 16}
RULE = ("cases = one generated CREATE TABLE each: 2..8 columns with inline PRIMARY KEY / UNIQUE / REFERENCES / CHECK and "
        "0..5 table-level clauses (PRIMARY KEY, UNIQUE, CHECK, FOREIGN KEY; named or not; 1..4 columns each) placed anywhere "
        "after the first column, identifiers plain / mixed case / delimited in three styles; exhaustive product clause kind x "
        "position x column count x identifier style first, then seeded random tables. Non-trivial = the table carries at least "
        "one key/unique/check/foreign-key declaration; distinct = distinct DDL text. Known-finding classes (two-word referential "
        "actions, clause before the first column, UNIQUE clause before its column) are generated separately and classified by mechanism."
        " Added after seeded defects: sort directions and [NON]CLUSTERED on key clauses, inline PK next to a named table-level PK (the named constraint's own list is compared), look-alike columns (id / \"ID\"), tricky vocabulary names, clauses wrapped over lines at every word gap.")
ASSUMPTIONS = ["the *name* of an inline named foreign key (col type CONSTRAINT n REFERENCES ...) is reported nowhere on the pinned tree and is not judged; its reference must sit on its own column and must not create constraint entries",
               "one PRIMARY KEY declaration per table (SQL allows no more)",
               "the same spelling of a column is used in its definition and in the clauses that name it",
               "reporting conventions of DESIGN 6/C02 (UC_<cols> name for unnamed multi-column unique, named FK under constraints.references, ...)",
               "the unique *flag* of the sole column of a *named* unique constraint is not checked"]
MIN_EVENTS = {"statements": 50, "run_return": 50}

STYLES = {
    "plain": lambda n: n,
    "upper": lambda n: n.upper(),
    "mixed": lambda n: n[:1].upper() + n[1:],
    "dq": lambda n: '"%s"' % n,
    "bt": lambda n: "`%s`" % n,
    "br": lambda n: "[%s]" % n,
}
TWO_WORD = ["SET NULL", "SET DEFAULT", "NO ACTION"]


def restyle(t, style):
    f = STYLES[style]
    t = copy.deepcopy(t)
    for kind, it in t["items"]:
        if kind == "col":
            it["name"] = f(it["name"])
            for o in it["opts"]:
                if o["k"] == "check":
                    o["col"] = f(o["col"])
        else:
            if it.get("name"):
                it["name"] = f(it["name"])
            if "cols" in it:
                it["cols"] = [f(c) for c in it["cols"]]
            if "col" in it:
                it["col"] = f(it["col"])
    return t


def gen_random_table(rng, k):
    kinds = ["null", "default", "pk", "unique", "ref", "check"]
    t = S.gen_table(rng, k, ncols=rng.randint(2, 8), clauses=False, kinds=kinds)
    has_pk = any(o["k"] == "pk" for kind, it in t["items"] for o in it["opts"])
    for kind, it in t["items"]:
        for o in it["opts"]:
            if o["k"] == "check" and rng.random() < 0.4:
                o["cname"] = "ck_%s" % it["name"]
    if rng.random() < 0.12 and len(t["items"]) >= 2:
        # two distinct columns whose names differ only in quoting / letter case ("ID" next to id): every declaration names exactly one of them
        cols = [it for kind, it in t["items"] if kind == "col"]
        a, b = rng.sample(cols, 2)
        base = a["name"]
        alike = rng.choice(['"%s"' % base.upper(), '"%s"' % base, "[%s]" % base, base.upper() if base.upper() != base else base.lower(), "`%s`" % base.capitalize()])
        if alike != base and alike not in [c["name"] for c in cols]:
            for o in b["opts"]:
                if o["k"] == "check":
                    o["col"] = alike
                    if o.get("cname"):
                        o["cname"] = "ck_alike"
            b["name"] = alike
            t["lookalike"] = True
    S.add_clauses(rng, t, has_pk, max_clauses=5)
    return t


def make_case(t, layout, rng, gen, feature=None, feature_cols=()):
    if layout == "multiline":
        ddl = multiline_table(S.table_head_tokens(t), S.table_item_tokens(t), [])
    else:
        ddl = render(S.table_tokens(t), layout, rng)
    return {"gen": gen, "ddl": finish_script([ddl]), "expected": S.table_expect(t), "feature": feature, "feature_cols": list(feature_cols)}


def classify(case, kind, diffs):
    """known-finding key for a deviation that the mechanism explains, else None"""
    f = case.get("feature")
    if f is None and diffs and all(w == "column columns.unique" and o is True and x is False for w, o, x in diffs):
        # the name 'columns' collides with the key of the internal unique-statement dict
        return "C02:column-named-columns-flagged-unique"
    if f == "two_word_action":
        if kind in ("exception", "table_count"):
            return "C02:two-word-referential-action"
        fc = set(case["feature_cols"])
        ok = True
        for what, obs, exp in diffs:
            if what == "constraints":
                continue
            if what.startswith("column "):
                col, field = what[len("column "):].rsplit(".", 1)
                if col in fc and field in ("references", "nullable", "default"):
                    continue
            ok = False
        return "C02:two-word-referential-action" if ok else None
    if f == "clause_first":
        return "C02:clause-before-first-column"
    if f == "unique_before_column":
        fc = set(case["feature_cols"])
        for what, obs, exp in diffs:
            if not (what.startswith("column ") and what.endswith(".unique") and what[len("column "):-len(".unique")] in fc and obs is False):
                return None
        return "C02:unique-clause-before-its-column" if diffs else None
    return None


OTHER_MODES = ["mysql", "postgres", "mssql", "oracle", "hql", "snowflake", "redshift", "ibm_db2", "sqlite", "spark_sql", "athena", "databricks", "vertics"]


def check_case(ctx, case):
    ctx.evaluated()
    exp = case["expected"]
    nontrivial = bool(exp["primary_key"] or exp["constraints"] or exp["checks"] or any(
        c["unique"] or c["references"] or c["check"] for c in exp["columns"]))
    if nontrivial:
        ctx.nontrivial_case(digest(case["ddl"]))
    before = len(STATE.contract_violations)
    nb = STATE.counters.get("contract_violation:pk_not_nullable", 0)
    r = parse(case["ddl"])
    if r[0] == "exc":
        ctx.violation("exception", case, {"exception": r[1], "message": r[2]}, kf=classify(case, "exception", []))
        return False
    ents = entities(r[1])
    if len(ents) != 1:
        ctx.violation("table_count", case, {"observed": len(ents), "expected": 1}, kf=classify(case, "table_count", []))
        return False
    errs = S.compare_table(ents[0], exp)
    if case.get("feature") == "double_pk":
        # two PRIMARY KEY declarations in one table: which of them the table-level primary_key list shows is not
        # decided by the property; the *named* constraint's own column list, flags and everything else are
        errs = [e for e in errs if e[0] != "primary_key"]
        ctx.obs["double_pk_cases"] += 1
    if errs:
        first = errs[0][0]
        what = first.split(" ")[0] + ("." + first.split(".")[-1] if first.startswith("column ") else "")
        ctx.violation(what, case, {"diffs": [(w, short(o, 300), short(x, 300)) for w, o, x in errs[:5]]},
                      kf=classify(case, what, errs))
    if not errs and int(digest(case["ddl"])[:4], 16) % 6 == 0:
        # which columns carry the keys / uniques / checks / references does not depend on the output mode asked for
        mode = OTHER_MODES[int(digest(case["ddl"])[4:8], 16) % len(OTHER_MODES)]
        r2 = parse(case["ddl"], output_mode=mode)
        ctx.evaluated()
        ctx.obs["cases_repeated_in_a_dialect_mode"] += 1
        e2 = S.compare_table(entities(r2[1])[0], exp) if r2[0] == "ok" and len(entities(r2[1])) == 1 else [("result", short(r2, 200), "one table")]
        if case.get("feature") == "double_pk":
            e2 = [e for e in e2 if e[0] != "primary_key"]
        if e2:
            ctx.violation("in_mode:" + e2[0][0].split(" ")[0], dict(case, mode=mode), {"mode": mode, "diffs": [(w, short(o, 300), short(x, 300)) for w, o, x in e2[:5]]})
    if STATE.counters.get("contract_violation:pk_not_nullable", 0) > nb and not case.get("feature"):
        ctx.violation("contract:pk_not_nullable", case, {"witness": STATE.contract_violations[before:before + 2]})
    for k in ("primary_key",):
        if exp[k]:
            ctx.obs["tables_with_pk"] += 1
    ctx.obs["uniques_checked"] += len(exp["constraints"].get("uniques", [])) + sum(1 for c in exp["columns"] if c["unique"])
    ctx.obs["fk_checked"] += len(exp["constraints"].get("references", [])) + sum(1 for c in exp["columns"] if c["references"])
    ctx.obs["checks_checked"] += len(exp["checks"]) + sum(1 for c in exp["columns"] if c["check"])
    return not errs


def _pk_contract(self, result, old, *a, **kw):
    pk = getattr(self, "primary_key", None) or []
    bad = []
    for c in getattr(self, "columns", []) or []:
        if isinstance(c, dict) and c.get("name") in pk and c.get("nullable") is not False:
            bad.append(c.get("name"))
    return {"table": getattr(self, "table_name", None), "pk": list(pk), "nullable_pk_columns": bad} if bad else None


def install_contracts():
    try:
        from simple_ddl_parser.output.base_data import BaseData
        contracts.post(BaseData, "__post_init__", _pk_contract, "pk_not_nullable")
    except Exception as e:
        STATE.unattached.append("contract pk_not_nullable: %r" % (e,))


def base_cols(n):
    return [S.make_column("c%d" % i, (["int"], None), []) for i in range(n)]


def exhaustive_cases(ctx):
    i = 0
    kinds = ["pk", "cpk", "uq", "cuq", "ck", "cck", "fk", "cfk"]
    for kd in kinds:
        for ncl in (1, 2, 3, 4):
            for pos in (1, 2, 3, 4):
                for style in STYLES:
                    i += 1
                    if not ctx.mine(i):
                        continue
                    rng = ctx.sub_rng("exh", i)
                    cols = base_cols(4)
                    cs = ["c%d" % j for j in rng.sample(range(4), ncl)]
                    # a single-column unnamed UNIQUE must follow its column in the plain class
                    if kd == "uq" and ncl == 1 and int(cs[0][1:]) >= pos:
                        cs = ["c%d" % rng.randrange(pos)]
                    name = "n_%s" % kd if kd in ("cpk", "cuq", "cck", "cfk") else None
                    if kd in ("pk", "cpk"):
                        cl = {"kind": "pk", "cols": cs, "name": name}
                    elif kd in ("uq", "cuq"):
                        cl = {"kind": "unique", "cols": cs, "name": name}
                    elif kd in ("ck", "cck"):
                        cl = {"kind": "check", "col": cs[0], "op": ">", "val": 3, "name": name}
                    else:
                        cl = {"kind": "fk", "cols": cs, "name": name, "ref_schema": rng.choice([None, "s"]), "ref_table": "p",
                              "ref_cols": ["k%d" % j for j in range(len(cs))], "on_delete": rng.choice(S.ACTIONS[:3]), "on_update": rng.choice(S.ACTIONS[:3])}
                    items = [("col", c) for c in cols]
                    items.insert(pos, ("clause", cl))
                    t = restyle({"schema": None, "name": "t", "prefix": "plain", "items": items}, style)
                    yield make_case(t, rng.choice([None, "multiline"]), rng, "exhaustive")


def double_pk_cases(ctx, n):
    """an inline PRIMARY KEY column plus a (named) table-level PRIMARY KEY over other columns"""
    rng = ctx.rng
    for i in range(n):
        ncols = rng.randint(3, 6)
        cols = base_cols(ncols)
        inline = rng.randrange(ncols)
        cols[inline]["opts"] = [{"k": "pk"}]
        others = [c["name"] for j, c in enumerate(cols) if j != inline]
        cs = rng.sample(others, rng.randint(1, min(3, len(others))))
        cl = {"kind": "pk", "cols": cs, "name": rng.choice(["pk_named", "PK_T", None])}
        items = [("col", c) for c in cols]
        items.insert(rng.randint(1, len(items)), ("clause", cl))
        t = restyle({"schema": None, "name": "t", "prefix": "plain", "items": items}, rng.choice(list(STYLES)))
        yield make_case(t, rng.choice([None, "multiline"]), rng, "double_pk", "double_pk", [])


def kf_cases(ctx, n):
    rng = ctx.rng
    for i in range(n):
        which = i % 3
        cols = base_cols(3)
        if i % 7 == 6:
            # a column literally named 'columns' next to a multi-column table-level UNIQUE
            cols[1]["name"] = "columns"
            cl = {"kind": "unique", "cols": ["c0", "c2"], "name": rng.choice([None, "u_x"])}
            t = {"schema": None, "name": "t", "prefix": "plain", "items": [("col", c) for c in cols] + [("clause", cl)]}
            yield make_case(t, None, rng, "kf", None, [])
            continue
        if which == 0:
            act = rng.choice(TWO_WORD)
            if rng.random() < 0.5:
                cols[1]["opts"] = [{"k": "ref", "table": "p", "column": "k", "on_delete": act if rng.random() < .5 else None, "on_update": None}]
                if not cols[1]["opts"][0]["on_delete"]:
                    cols[1]["opts"][0]["on_update"] = act
                items = [("col", c) for c in cols]
                fc = ["c1"]
            else:
                cl = {"kind": "fk", "cols": ["c0"], "name": rng.choice([None, "fk_x"]), "ref_table": "p", "ref_cols": ["k"], "on_delete": act, "on_update": None}
                items = [("col", c) for c in cols] + [("clause", cl)]
                fc = ["c0"]
            t = {"schema": None, "name": "t", "prefix": "plain", "items": items}
            yield make_case(t, None, rng, "kf", "two_word_action", fc)
        elif which == 1:
            cl = rng.choice([{"kind": "pk", "cols": ["c0"], "name": None}, {"kind": "unique", "cols": ["c0", "c1"], "name": "u"},
                             {"kind": "check", "col": "c0", "op": ">", "val": 1, "name": None}])
            t = {"schema": None, "name": "t", "prefix": "plain", "items": [("clause", cl)] + [("col", c) for c in cols]}
            yield make_case(t, None, rng, "kf", "clause_first", [])
        else:
            cl = {"kind": "unique", "cols": ["c2"], "name": None}
            items = [("col", cols[0]), ("col", cols[1]), ("clause", cl), ("col", cols[2])]
            t = {"schema": None, "name": "t", "prefix": "plain", "items": items}
            yield make_case(t, None, rng, "kf", "unique_before_column", ["c2"])


SORT_WORD_NAMES = ["desc", "asc", "Desc", "ASC", '"desc"', "`asc`", "[desc]", "descr", "asc_"]


def sortword_cases(ctx, n):
    """columns literally called desc / asc (a usual short form of 'description') inside UNIQUE clauses: a sort direction is a keyword
    only in key and index lists; the pinned tree keeps these names as the columns they are (calibrated)"""
    rng = ctx.rng
    for i in range(n):
        cols = base_cols(4)
        picked = rng.sample(SORT_WORD_NAMES, rng.randint(1, 2))
        idx = rng.sample(range(1, 4), len(picked))
        for j, nm in zip(idx, picked):
            cols[j]["name"] = nm
        names = [c["name"] for c in cols]
        clauses = []
        for k in range(rng.randint(1, 2)):
            m = rng.randint(2, 4)
            cs = rng.sample(names, m)
            if not set(cs) & set(picked):
                cs[rng.randrange(m)] = picked[0]
                if len(set(cs)) != len(cs):
                    continue
            clauses.append({"kind": "unique", "cols": cs, "name": rng.choice([None, "uq_%d" % k])})
        if not clauses:
            continue
        t = {"schema": None, "name": "t", "prefix": "plain", "items": [("col", c) for c in cols] + [("clause", cl) for cl in clauses]}
        yield make_case(t, rng.choice([None, "multiline", {"case": "lower"}]), rng, "sortword")


SHARED_NAMES = ["id", "email", "tenant", "code", "owner_id", "note"]


def script_cases(ctx, n):
    """2..4 tables in ONE script whose columns share names: what one table declares about 'email' says nothing about the column
    'email' of the next table.  Every table is compared with its own expectation."""
    rng = ctx.rng
    for i in range(n):
        tables = []
        for k in range(rng.randint(2, 4)):
            names = rng.sample(SHARED_NAMES, rng.randint(2, 5))
            cols = []
            has_pk = False
            for nm in names:
                kinds = [x for x in ["null", "default", "pk", "unique", "ref", "check"] if not (x == "pk" and has_pk)]
                rng.shuffle(kinds)
                opts = [S.gen_opt(rng, kd, nm) for kd in kinds[:rng.choice([0, 0, 0, 1, 1, 2])]]
                has_pk = has_pk or any(o["k"] == "pk" for o in opts)
                cols.append(S.make_column(nm, rng.choice(S.CORE_TYPES[:12]), opts))
            t = {"schema": rng.choice([None, None, "s1"]), "name": "mt%d" % k, "prefix": "plain", "items": [("col", c) for c in cols]}
            S.add_clauses(rng, t, has_pk, max_clauses=3, position="end")
            tables.append(t)
        parts = []
        for t in tables:
            parts.append(multiline_table(S.table_head_tokens(t), S.table_item_tokens(t), []) if rng.random() < 0.5 else render(S.table_tokens(t)))
        exps = [S.table_expect(t) for t in tables]
        if rng.random() < 0.5:
            # a single-column UNIQUE added afterwards by ALTER TABLE to ONE of the tables (often not the last one): it flags that
            # table's column and says nothing about the same-named columns of the tables declared after it
            k = rng.randrange(len(tables)) if rng.random() < 0.3 else rng.randrange(max(1, len(tables) - 1))
            t, exp = tables[k], exps[k]
            free = [c for c in exp["columns"] if not c["unique"] and c["name"] not in exp["primary_key"]]
            if free:
                col = rng.choice(free)
                ref = (t["schema"] + "." if t["schema"] else "") + t["name"]
                parts.append("ALTER TABLE %s ADD %sUNIQUE (%s);" % (ref, rng.choice(["", "CONSTRAINT uq_late "]), col["name"]))
                col["unique"] = True
        yield {"gen": "script", "ddl": finish_script(parts), "expected_tables": exps}


def check_script(ctx, case):
    ctx.evaluated()
    ctx.nontrivial_case(digest(case["ddl"]))
    r = parse(case["ddl"])
    if r[0] == "exc":
        ctx.violation("script:exception", case, {"exception": r[1], "message": r[2]})
        return
    ents = entities(r[1])
    exps = case["expected_tables"]
    if len(ents) != len(exps):
        ctx.violation("script:table_count", case, {"observed": len(ents), "expected": len(exps)})
        return
    for k, (ent, exp) in enumerate(zip(ents, exps)):
        errs = S.compare_table(ent, exp)
        if errs:
            first = errs[0][0]
            what = first.split(" ")[0] + ("." + first.split(".")[-1] if first.startswith("column ") else "")
            ctx.violation("script:" + what, case, {"table_index": k, "table": exp["table_name"], "diffs": [(w, short(o, 300), short(x, 300)) for w, o, x in errs[:5]]})
        ctx.obs["script_tables_compared"] += 1
        ctx.obs["uniques_checked"] += len(exp["constraints"].get("uniques", [])) + sum(1 for c in exp["columns"] if c["unique"])
        ctx.obs["fk_checked"] += len(exp["constraints"].get("references", [])) + sum(1 for c in exp["columns"] if c["references"])


def rename_cases(ctx, n):
    """CREATE TABLE with (named) foreign keys whose REFERENCED column is called like a column of the table itself, followed by
    ALTER TABLE .. RENAME COLUMN of that own column: the foreign keys keep pointing at the referenced table's column as written."""
    rng = ctx.rng
    for i in range(n):
        own = rng.choice(["id", "Id", "code", '"id"', "k"])
        refcol = rng.choice([own, own, own.strip('"').upper(), own.strip('"').lower()])
        cols = base_cols(4)
        cols[0]["name"] = own
        if rng.random() < 0.5:
            cols[0]["opts"] = [{"k": "pk"}]
        items = [("col", c) for c in cols]
        clauses = []
        fk_cols = rng.sample(["c1", "c2", "c3"], rng.randint(1, 3))
        for j, c in enumerate(fk_cols):
            if rng.random() < 0.35:
                for kind, it in items:
                    if it["name"] == c:
                        it["opts"] = [{"k": "ref", "table": "parent%d" % j, "schema": rng.choice([None, "s"]), "column": refcol, "on_delete": rng.choice(S.ACTIONS[:3]), "on_update": None}]
            else:
                clauses.append({"kind": "fk", "cols": [c], "name": rng.choice(["fk_%d" % j, "fk_%d" % j, None]), "ref_schema": rng.choice([None, "s"]), "ref_table": "parent%d" % j,
                                "ref_cols": [refcol], "on_delete": rng.choice(S.ACTIONS[:3]), "on_update": rng.choice(S.ACTIONS[:3])})
        t = {"schema": rng.choice([None, "app"]), "name": "orders", "prefix": "plain", "items": items + [("clause", cl) for cl in clauses]}
        new = rng.choice(["order_id", "OrderId", "pk1"])
        exp = S.table_expect(t)
        for c in exp["columns"]:
            if c["name"] == own:
                c["name"] = new
        exp["primary_key"] = [new if x == own else x for x in exp["primary_key"]]
        from vf.gen.render import I, K, P, dotted
        alter = render(K("ALTER TABLE") + dotted(t.get("schema"), t["name"]) + K("RENAME COLUMN") + I(own) + K("TO") + I(new) + P(";"))
        yield {"gen": "rename", "ddl": finish_script([render(S.table_tokens(t)), alter]), "expected": exp, "feature": None, "feature_cols": []}


def run_shard(ctx):
    install_contracts()
    rng = ctx.rng
    for case in sortword_cases(ctx, ctx.budget(200, 3000)):
        check_case(ctx, case)
        ctx.obs["sort_word_column_cases"] += 1
    for case in script_cases(ctx, ctx.budget(300, 6000)):
        check_script(ctx, case)
        ctx.obs["multi_table_scripts"] += 1
    for case in rename_cases(ctx, ctx.budget(200, 3000)):
        check_case(ctx, case)
        ctx.obs["rename_next_to_fk_cases"] += 1
    for case in exhaustive_cases(ctx):
        check_case(ctx, case)
        ctx.obs["exhaustive_cases"] += 1
    for i in range(ctx.budget(2000, 60000)):
        t = gen_random_table(rng, i)
        if t.get("lookalike"):
            ctx.obs["lookalike_column_tables"] += 1
        else:
            t = restyle(t, rng.choice(list(STYLES)))
        case = make_case(t, rng.choice([None, "multiline", {"case": "lower"}, {"ws": True, "case": "random"}, {"ws": True, "nl": 0.25}, {"nl": 0.4, "indent": True}]), rng, "random")
        check_case(ctx, case)
        ctx.obs["random_cases"] += 1
        if i == 0:
            ctx.sample({"ddl": case["ddl"], "expected": case["expected"]})
    for case in double_pk_cases(ctx, ctx.budget(160, 3000)):
        check_case(ctx, case)
    for case in kf_cases(ctx, ctx.budget(60, 600)):
        check_case(ctx, case)
        ctx.obs["known_finding_class_cases"] += 1
