"""C18 - types, domains, schemas, databases, tablespaces yield one exact entity each.

Oracle: reference model per entity kind (conventions calibrated on the pinned tree, DESIGN 6/C18);
a following table that uses the type must report the (qualified) type name verbatim.
"""
import json
import re
from vf.gen import schema as S
from vf.gen.render import finish_script, render
from vf.run import entities, parse
from vf.util import ddiff, digest, short

LEVEL = "exploration"
WORKERS = {"quick": 8, "thorough": 16}
RULE = ("cases = one entity declaration (CREATE TYPE AS ENUM/OBJECT/TABLE, CREATE DOMAIN, CREATE SCHEMA with every subset of "
        "IF NOT EXISTS x AUTHORIZATION x COMMENT form, CREATE DATABASE, CREATE [BIGFILE|SMALLFILE] [TEMPORARY] TABLESPACE) in "
        "every name form (plain, qualified, delimited), enum lists of 1..12 values, 1..6 attributes/columns, alone or between "
        "tables; for types, followed by a table using the type at first/middle/last column with options. Exhaustive option "
        "products first, then seeded random. Non-trivial = every case (each compares a full entity); distinct = distinct DDL text."
        " Added after seeded defects: keyword-case variants of the declarations the pinned tree recognises case-insensitively, keyword-shaped type names, CREATE DOMAIN AS ENUM, the CREATE TYPE property-list form, several declarations per script, run(); run(group_by_type); run() on one object, OBJECT attributes with type parameters, comments, enum values, array and two-word types, type names containing type keywords, BigQuery back-quoted schema paths, every 4th case also with normalize_names=True (same entities minus one pair of delimiters per name); wave 9: CREATE TRANSIENT / REMOTE DATABASE and CLONE clauses, declarations framed by a SET line directly before and a statement outside the supported DDL (COMMENT ON, REVOKE, GRANT, ANALYZE) directly after.")
ASSUMPTIONS = ["keywords are written in upper case, except that tablespace / enum / database / domain declarations are also given in lower, capitalised and random keyword case (recognised case-insensitively on the pinned tree; the tablespace kind word and ENUM are reported as written); keyword case of the other declarations is not quantified by the property and leaks into their output on the pinned tree, so it is not varied",
               "a qualified schema name a.b is reported as project=a, schema_name=b (calibrated convention); AUTHORIZATION key looked up case-insensitively",
               "domain base types are one word with a size (two-word base types are not supported by the grammar and not named)"]
MIN_EVENTS = {"statements": 50, "run_return": 50}
RECASE_P = 0.35
RECASE_KINDS = {"tablespace", "enum", "database", "domain"}      # (database: only without a kind word / CLONE, see build_case)

ENUM_WORDS = ["'a'", "'b'", "'A'", "'new'", "'in progress'", "'done'", "'x-1'", "'N/A'", "'UPPER'", "'mixed Case'", "'z9'", "'_u'", "'q.r'", "'50%'"]
NAMES = ["ty", "My_Type", "status_t", "T1", '"Ty"', '"my type"', "[ty2]", "`bt`", "mood_array", "Tag_Arrays", "enum_t", "object_id_t", "emp#status", "t$1", "_ty"]   # ... names that merely contain a type keyword
SCHEMAS = [None, None, "s", "Sch", '"S"', "[dbo]"]
# keyword-shaped type names (C06 enumerates every keyword at this position; here a few ride along with every type form)
KW_NAMES = ["key", "comment", "tag", "options", "index", "default", "check", "Order", "Tablespace"]


def pick_name(rng):
    """(name, may a table use it as a column type?)"""
    if rng.random() < 0.15:
        return rng.choice(KW_NAMES), False
    return rng.choice(NAMES), True


def qname(schema, name):
    return (schema + "." if schema else "") + name


def gen_enum(rng, n=None):
    schema, (name, usable) = rng.choice(SCHEMAS), pick_name(rng)
    n = n or rng.randint(1, 12)
    vals = [rng.choice(ENUM_WORDS) for _ in range(n)]
    sep = rng.choice([", ", ",", " , "])
    head = rng.choice(["CREATE TYPE", "CREATE OR REPLACE TYPE"])
    ddl = "%s %s AS ENUM (%s);" % (head, qname(schema, name), sep.join(vals))
    exp = {"schema": schema, "type_name": name, "base_type": "ENUM", "properties": {"values": vals}}
    return ddl, exp, None, (schema, name) if usable else None


def gen_type_props(rng, n=None):
    """CREATE TYPE name (KEY = value, ...) - the property-list form"""
    schema, (name, usable) = rng.choice(SCHEMAS), pick_name(rng)
    keys = rng.sample(["INTERNALLENGTH", "INPUT", "OUTPUT", "ALIGNMENT", "STORAGE_X", "Receive"], n or rng.randint(1, 4))
    props = {k: rng.choice(["16", "my_in_function", "double", "plain", "42"]) for k in keys}
    head = rng.choice(["CREATE TYPE", "CREATE OR REPLACE TYPE"])
    ddl = "%s %s (%s);" % (head, qname(schema, name), ", ".join("%s = %s" % kv for kv in props.items()))
    return ddl, {"schema": schema, "type_name": name, "base_type": None, "properties": props}, None, None


def gen_attrs(rng, n):
    cols = []
    for i in range(n):
        cols.append(S.make_column("at%d" % i, rng.choice(S.CORE_TYPES[:22]), []))
    return cols


RICH_ATTRS = [
    ("geometry(Point, 4326)", {"type": "geometry", "size": None, "type_parameters": ("Point", 4326)}),
    ("geometry(LineString, 3857)", {"type": "geometry", "size": None, "type_parameters": ("LineString", 3857)}),
    ("varchar(10) COMMENT 'c'", {"type": "varchar", "size": 10, "comment": "'c'"}),
    ("int COMMENT 'primary id'", {"type": "int", "size": None, "comment": "'primary id'"}),
    ("VARCHAR2(30 CHAR)", {"type": "VARCHAR2", "size": "30 CHAR"}),
    ("ENUM('a','b')", {"type": "ENUM", "size": None, "values": ["'a'", "'b'"]}),
    ("int[]", {"type": "int[]", "size": None}),
    ("character varying(5)", {"type": "character varying", "size": 5}),
]


def gen_object(rng, n=None):
    schema, (name, usable) = rng.choice(SCHEMAS), pick_name(rng)
    cols = gen_attrs(rng, n or rng.randint(1, 6))
    texts, attrs = [], []
    for c in cols:
        ty, sz = S.type_expect(c["type"])
        texts.append(render(S.column_tokens(c)))
        attrs.append({"name": c["name"], "type": ty, "size": sz})
    # attributes that declare more than a name, a type and a numeric size: all of it belongs to the attribute record
    for q in range(rng.choice([0, 0, 1, 2])):
        text, extra = rng.choice(RICH_ATTRS)
        nm = "rx%d" % q
        pos = rng.randint(0, len(texts))
        texts.insert(pos, nm + " " + text)
        attrs.insert(pos, dict({"name": nm}, **extra))
    ddl = "CREATE TYPE %s AS OBJECT (%s);" % (qname(schema, name), ", ".join(texts))
    exp = {"schema": schema, "type_name": name, "base_type": "OBJECT", "properties": {"attributes": attrs}}
    return ddl, exp, None, (schema, name) if usable else None


def gen_table_type(rng, n=None):
    schema, (name, usable) = rng.choice(SCHEMAS), pick_name(rng)
    n = n or rng.randint(1, 6)
    cols = []
    has_pk = False
    for i in range(n):
        c = S.gen_column(rng, i, allow_pk=not has_pk, kinds=["null", "default", "pk", "unique"], max_opts=3)
        has_pk = has_pk or any(o["k"] == "pk" for o in c["opts"])
        if any(o["k"] == "pk" for o in c["opts"]):
            # PRIMARY KEY NULL is contradictory SQL: keep the column consistent
            c["opts"] = [({"k": "notnull"} if o["k"] == "null" else o) for o in c["opts"]]
        cols.append(c)
    body = ", ".join(render(S.column_tokens(c)) for c in cols)
    ddl = "CREATE TYPE %s AS TABLE (%s);" % (qname(schema, name), body)
    ecols = []
    for c in cols:
        e = S.column_expect(c)
        e["primary_key"] = e.pop("_pk")
        ecols.append(e)
    exp = {"schema": schema, "type_name": name, "base_type": None, "properties": {"columns": ecols}}
    return ddl, exp, None, (schema, name) if usable else None


def gen_domain(rng, variant=None):
    schema, name = rng.choice(SCHEMAS[:5]), rng.choice(["d", "Dom_1", "posint", '"D"'])
    base, size = rng.choice([("varchar", "(10)"), ("char", "(3)"), ("numeric", "(10,2)"), ("decimal", "(5, 0)"), ("VARCHAR", "(255)")])
    variant = variant or rng.choice(["as", "as", "as", "nosize", "noas", "enum", "enum"])
    if variant == "enum":
        n = rng.randint(1, 6)
        vals = [rng.choice(ENUM_WORDS) for _ in range(n)]
        return ("CREATE DOMAIN %s AS ENUM (%s);" % (qname(schema, name), rng.choice([", ", ","]).join(vals)),
                {"schema": schema, "domain_name": name, "base_type": "ENUM", "properties": {"values": vals}}, None, None)
    if variant == "as":
        return "CREATE DOMAIN %s AS %s%s;" % (qname(schema, name), base, size), {"schema": schema, "domain_name": name, "base_type": base, "properties": {}}, None, None
    if variant == "nosize":
        b = rng.choice(["int", "text", "integer"])
        return "CREATE DOMAIN %s AS %s;" % (qname(schema, name), b), {"schema": schema, "domain_name": name, "base_type": b, "properties": {}}, "C18:domain-without-size", None
    return "CREATE DOMAIN %s %s%s;" % (qname(schema, name), base, size), {"schema": schema, "domain_name": name, "base_type": base, "properties": {}}, "C18:domain-without-AS", None


def gen_schema(rng, ine=None, auth=None, com=None, nameform=None):
    ine = rng.random() < 0.5 if ine is None else ine
    auth = rng.choice([None, "joe", "Admin_1", '"Role"']) if auth is None else (auth or None)
    com = rng.choice([None, "sp", "eq", "eqns"]) if com is None else (com or None)
    nameform = nameform or rng.choice(["plain", "plain", "dq", "qual", "auth_only", "bq_path"])
    exp = {}
    if ine:
        exp["if_not_exists"] = True
    if nameform == "plain":
        nm = rng.choice(["sc", "My_Schema", "SALES"])
        exp["schema_name"] = nm
    elif nameform == "dq":
        nm = rng.choice(['"Sc"', '"my schema"', "[sc]"])
        exp["schema_name"] = nm
    elif nameform == "qual":
        a, b = rng.choice(["proj", "P1"]), rng.choice(["ds", "Sc2"])
        nm = a + "." + b
        exp["schema_name"] = b
        exp["project"] = a
    elif nameform == "bq_path":
        # BigQuery spelling: the whole path between one pair of back quotes (reported without them in both normalize_names settings)
        a, b = rng.choice(["my-project", "proj", "p-1"]), rng.choice(["sales_data", "ds", "analytics"])
        nm = "`%s.%s`" % (a, b)
        exp["schema_name"] = b
        exp["project"] = a
        auth = None
    else:  # CREATE SCHEMA AUTHORIZATION joe
        if not auth:
            auth = "joe"
        ine, com, nm = False, None, None
        exp = {"schema_name": auth}
    text = "CREATE SCHEMA " + ("IF NOT EXISTS " if ine else "") + (nm or "")
    if auth:
        text += (" " if nm else "") + "AUTHORIZATION " + auth
        exp["authorization"] = auth
    if com:
        lit = rng.choice(["'hello'", "'a schema'", "'Sales: 2024'"])
        text += {"sp": " COMMENT ", "eq": " COMMENT = ", "eqns": " COMMENT="}[com] + lit
        exp["comment"] = lit
    return text + ";", exp, None, None


def gen_database(rng):
    nm = rng.choice(["db", "My_DB", '"Db"', "DB1", "[db]"])
    exp = {"database_name": nm}
    text = "CREATE DATABASE " + nm
    kindw = rng.choice([None, None, "TRANSIENT", "REMOTE"])
    if kindw:
        text = "CREATE %s DATABASE %s" % (kindw, nm)
        exp[kindw.lower()] = True
    r = rng.random()
    if r < 0.3 and not kindw:
        lit = rng.choice(["'x'", "'main db'"])
        text += " COMMENT " + lit
        exp["comment"] = lit
    elif r < 0.55:
        src = rng.choice(["prod", "Src_DB", "p1"])
        text += " CLONE " + src
        exp["clone"] = {"from": src}
    return text + ";", exp, None, None


def gen_tablespace(rng, kind=None, temp=None):
    nm = rng.choice(["ts", "TS_1", '"Ts"', "users_ts"])
    kind = rng.choice([None, "BIGFILE", "SMALLFILE"]) if kind is None else (kind or None)
    temp = rng.random() < 0.5 if temp is None else temp
    text = "CREATE " + (kind + " " if kind else "") + ("TEMPORARY " if temp else "") + "TABLESPACE " + nm + ";"
    return text, {"tablespace_name": nm, "properties": None, "type": kind, "temporary": temp}, None, None


GENS = {"enum": gen_enum, "object": gen_object, "table_type": gen_table_type, "type_props": gen_type_props, "domain": gen_domain, "schema": gen_schema,
        "database": gen_database, "tablespace": gen_tablespace}
NEIGHBOURS = ["CREATE TABLE nb%d (a int NOT NULL, b varchar(10) DEFAULT 'x');", "CREATE TABLE s.nb%d (id int PRIMARY KEY, type int, domain varchar(3), schema int);",
              "CREATE SEQUENCE sq%d START WITH 3;"]


def user_table(rng, tname, pos):
    schema, name = tname
    cols = [S.make_column("c0", (["int"], None), []), S.make_column("c1", (["varchar"], [5]), [{"k": "notnull"}]), S.make_column("c2", (["date"], None), [])]
    ctext = [render(S.column_tokens(c)) for c in cols]
    opt, eopt = rng.choice([("", {}), (" NOT NULL", {"nullable": False}), (" DEFAULT 'a'", {"default": "'a'"}), (" UNIQUE", {"unique": True})])
    ctext[pos] = "u%d %s%s" % (pos, qname(schema, name), opt)
    ddl = "CREATE TABLE users_of_type (%s);" % ", ".join(ctext)
    ecols = [S.column_expect(c) for c in cols]
    e = {"name": "u%d" % pos, "type": qname(schema, name), "size": None, "nullable": True, "default": None, "unique": False, "references": None, "check": None, "_pk": False}
    e.update(eopt)
    ecols[pos] = e
    exp = {"table_name": "users_of_type", "schema": None, "columns": ecols, "primary_key": [], "constraints": {}, "checks": []}
    return ddl, exp


STATEMENT_KEYWORDS = {"CREATE", "OR", "REPLACE", "TYPE", "AS", "ENUM", "OBJECT", "TABLE", "DOMAIN", "SCHEMA", "IF", "NOT", "EXISTS", "AUTHORIZATION",
                      "COMMENT", "DATABASE", "TABLESPACE", "BIGFILE", "SMALLFILE", "TEMPORARY", "NULL", "DEFAULT", "PRIMARY", "KEY", "UNIQUE"}


def recase(ddl, rng, how=None):
    """the same declaration with its SQL keywords in another letter case (identifiers, type names, values and everything inside
    quotes / delimiters are left alone); SQL keywords are case-insensitive, so the entity must be the same"""
    how = how or rng.choice(["lower", "capital", "random"])
    out, i, n = [], 0, len(ddl)
    closers = {"'": "'", '"': '"', "`": "`", "[": "]"}
    while i < n:
        ch = ddl[i]
        if ch in closers:
            j = ddl.find(closers[ch], i + 1)
            j = n - 1 if j < 0 else j
            out.append(ddl[i:j + 1])
            i = j + 1
            continue
        m = re.match(r"[A-Za-z_][A-Za-z_0-9]*", ddl[i:])
        if m:
            w = m.group(0)
            if w.upper() in STATEMENT_KEYWORDS and w.isupper() and (i == 0 or ddl[i - 1] != "."):
                if how == "lower":
                    w = w.lower()
                elif how == "capital":
                    w = w.capitalize()
                else:
                    w = "".join(c.lower() if rng.random() < 0.5 else c.upper() for c in w)
            out.append(w)
            i += len(m.group(0))
            continue
        out.append(ch)
        i += 1
    return "".join(out)


WRAP_KINDS = {"schema", "tablespace", "database", "enum", "domain"}
NOT_AT_LINE_START = {"CREATE", "ALTER", "DROP", "SET", "GO", "USE", "INSERT", "GRANT", "DELETE"}


def wrap(ddl, rng, p=0.5):
    """the declaration over several lines: a line break (plus indent) at blanks outside quotes and parentheses, in front of a word
    (never in front of a quote, a parenthesis or a statement-level word; the first two words stay together)"""
    out, depth, q, words_seen = [], 0, None, 0
    for i, ch in enumerate(ddl):
        if q:
            out.append(ch)
            if ch == q:
                q = None
            continue
        if ch in "'\"`":
            q = ch
        elif ch in "([":
            depth += 1
        elif ch in ")]":
            depth -= 1
        if ch == " " and depth == 0 and i + 1 < len(ddl) and (ddl[i + 1].isalpha() or ddl[i + 1] == "_"):
            words_seen += 1
            m = re.match(r"[A-Za-z_]+", ddl[i + 1:])
            if words_seen >= 2 and m.group(0).upper() not in NOT_AT_LINE_START and rng.random() < p:
                out.append(rng.choice(["\n    ", "\n  ", "\n\t", "\n"]))
                continue
        out.append(ch)
    return "".join(out)


def build_case(rng, ekind, gen, **kw):
    kind = ekind
    ddl, exp, kf, tname = GENS[kind](rng, **{k: v for k, v in kw.items() if k != "second"})
    if kind in WRAP_KINDS and kf is None and rng.random() < 0.2:
        ddl = wrap(ddl, rng)
    if kind in RECASE_KINDS and kf is None and not (kind == "domain" and exp.get("base_type") == "ENUM") and rng.random() < RECASE_P:
        # calibrated on the pinned tree: these declarations are recognised in any keyword case; two words are reported as written
        ddl = recase(ddl, rng)
        exp = dict(exp)
        if kind == "tablespace" and exp.get("type"):
            exp["type"] = ddl.split()[1]
        if kind == "enum":
            exp["base_type"] = re.search(r"\bAS\s+(ENUM)\b", ddl, re.I).group(1)
    stmts, plan = [], []
    framed = rng.random() < 0.2
    if framed:
        # a session setting directly before and a statement outside the supported DDL directly after (psql / pg_dump style)
        stmts.append("SET search_path = public;")
        plan.append({"kind": "neighbour", "ddl": "SET search_path = public;"})
    elif rng.random() < 0.4:
        nb = rng.choice(NEIGHBOURS) % 0
        stmts.append(nb)
        plan.append({"kind": "neighbour", "ddl": nb})
    stmts.append(ddl)
    plan.append({"kind": "entity", "entity_kind": kind, "expected": exp})
    if kw.get("second") or (not kw and rng.random() < 0.35):
        # a second (third) declaration in the same script: every entity keeps its own values
        for _ in range(rng.randint(1, 2)):
            k2 = rng.choice([kind, kind, "domain", "enum", "tablespace", "schema", "database", "tablespace"])
            d2, e2, kf2, _t2 = GENS[k2](rng)
            if kf2 is None:
                stmts.append(d2)
                plan.append({"kind": "entity", "entity_kind": k2, "expected": e2})
    if framed:
        stmts.append(rng.choice(["COMMENT ON SCHEMA app IS 'application objects';", "REVOKE ALL ON t FROM PUBLIC;", "GRANT USAGE ON SCHEMA app TO joe;", "ANALYZE t;"]))
    if tname is not None and rng.random() < 0.6:
        uddl, uexp = user_table(rng, tname, rng.randrange(3))
        stmts.append(uddl)
        plan.append({"kind": "user_table", "expected": uexp})
    if rng.random() < 0.4:
        nb = rng.choice(NEIGHBOURS) % 1
        stmts.append(nb)
        plan.append({"kind": "neighbour", "ddl": nb})
    return {"gen": gen, "entity_kind": kind, "ddl": finish_script(stmts), "plan": plan, "kf": kf}


def norm_entity(e):
    if not isinstance(e, dict):
        return e
    out = {}
    for k, v in e.items():
        out["authorization" if isinstance(k, str) and k.lower() == "authorization" else k] = v
    return out


def strip_names(o):
    """expected effect of normalize_names=True on a result: "x" / `x` / [x] -> x in every name (quoted literals '..' are values, not names)"""
    if isinstance(o, dict):
        return {strip_names(k) if isinstance(k, str) else k: strip_names(v) for k, v in o.items()}
    if isinstance(o, list):
        return [strip_names(x) for x in o]
    if isinstance(o, str) and not o.startswith("'"):
        return re.sub(r'"([^"]+)"|`([^`]+)`|\[([^\[\]]+)\]', lambda m: m.group(1) or m.group(2) or m.group(3), o)
    return o


def check_case(ctx, case):
    ctx.evaluated()
    ctx.nontrivial_case(digest(case["ddl"]))
    kf = case.get("kf")
    r = parse(case["ddl"])
    if r[0] == "exc":
        ctx.violation("exception", case, {"exception": r[1], "message": r[2]}, kf=kf)
        return
    ents = entities(r[1])
    plan = case["plan"]
    # every declared entity exactly once also in the grouped result, and nothing accumulates when the same object is run again
    n = ctx.obs["cases_seen"] = ctx.obs["cases_seen"] + 1
    if n % 3 == 0 and kf is None:
        from vf.run import run_history
        h = run_history(case["ddl"], None, [{}, {"group_by_type": True}, {}])
        ctx.evaluated(3)
        ctx.obs["same_object_histories"] += 1
        if h[0][0] != "ok" or h[2][0] != "ok" or h[0][1] != r[1] or h[2][1] != r[1]:
            ctx.violation("entities_change_when_run_again", case, {"first": short(h[0], 200), "third": short(h[2], 200), "fresh_object": short(r[1], 200)})
        elif h[1][0] != "ok" or not isinstance(h[1][1], dict):
            ctx.violation("grouped_result_not_available", case, {"observed": short(h[1], 200)})
        else:
            grouped = [e for k, v in h[1][1].items() if k != "comments" for e in v]
            a, b = sorted(json.dumps(e, sort_keys=True, default=str) for e in grouped), sorted(json.dumps(e, sort_keys=True, default=str) for e in ents)
            if a != b:
                ctx.violation("grouped_entities_differ_from_flat", case, {"grouped": short(h[1][1], 300), "flat": short(ents, 300)})
    if n % 4 == 1 and kf is None:
        # the same declaration read with normalize_names=True: the same entities with one pair of delimiters removed from every name
        rn = parse(case["ddl"], {"normalize_names": True})
        ctx.evaluated()
        ctx.obs["normalize_names_pairs"] += 1
        want = strip_names(json.loads(json.dumps(r[1])))
        if rn[0] != "ok" or json.loads(json.dumps(rn[1])) != want:
            d = ddiff(json.loads(json.dumps(rn[1])), want)[:4] if rn[0] == "ok" else None
            ctx.violation("normalize_names_changes_more_than_delimiters", dict(case, ctor={"normalize_names": True}),
                          {"diffs": [(q, short(x, 120), short(y, 120)) for q, x, y in d] if d else short(rn, 200)})
    if len(ents) != len(plan):
        ctx.violation("entity_count:" + case["entity_kind"], case, {"observed": len(ents), "expected": len(plan), "result": short(ents, 400)},
                      kf=kf if kf == "C18:domain-without-size" else None)
        return
    for ent, p in zip(ents, plan):
        if p["kind"] == "entity":
            ctx.obs["entities_compared:" + p["entity_kind"]] += 1
            got = norm_entity(ent)
            d = ddiff(got, p["expected"])
            if not d:
                continue
            k = None
            if kf == "C18:domain-without-AS" and all(x[0] == "/domain_name" and x[1] in ("DOMAIN", ".") for x in d):
                k = kf
            ctx.violation("entity:" + p["entity_kind"] + d[0][0].split("[")[0], case, {"diffs": d[:5]}, kf=k)
        elif p["kind"] == "user_table":
            ctx.obs["user_tables_compared"] += 1
            errs = S.compare_table(ent, p["expected"])
            if errs:
                ctx.violation("type_user_table", case, {"diffs": [(w, short(o, 200), short(x, 200)) for w, o, x in errs[:4]]})
        else:
            solo = parse(p["ddl"] + "\n")
            if solo[0] != "ok" or len(solo[1]) != 1:
                ctx.inconclusive_because("neighbour does not parse alone: " + p["ddl"])
            elif ent != solo[1][0]:
                ctx.violation("neighbour_changed", case, {"observed": short(ent, 300), "solo": short(solo[1][0], 300)})


def run_shard(ctx):
    rng = ctx.rng
    i = 0
    # exhaustive option products
    jobs = []
    for ine in (False, True):
        for auth in ("", "joe"):
            for com in ("", "sp", "eq", "eqns"):
                for nf in ("plain", "dq", "qual"):
                    jobs.append(("schema", dict(ine=ine, auth=auth, com=com, nameform=nf)))
    for kind in ("", "BIGFILE", "SMALLFILE"):
        for temp in (False, True):
            jobs.append(("tablespace", dict(kind=kind, temp=temp)))
    for n in range(1, 13):
        jobs.append(("enum", dict(n=n)))
    for n in range(1, 7):
        jobs.append(("object", dict(n=n)))
        jobs.append(("table_type", dict(n=n)))
    for v in ("as", "nosize", "noas", "enum"):
        jobs.append(("domain", dict(variant=v)))
        jobs.append(("domain", dict(variant=v, second=True)))
    for n in range(1, 5):
        jobs.append(("type_props", dict(n=n)))
    reps = 2 if ctx.tier == "quick" else 10
    for rep in range(reps):
        for kind, kw in jobs:
            i += 1
            if not ctx.mine(i):
                continue
            check_case(ctx, build_case(ctx.sub_rng("exh", i), kind, "exhaustive", **kw))
            ctx.obs["exhaustive_cases"] += 1
    kinds = list(GENS)
    for j in range(ctx.budget(1500, 30000)):
        case = build_case(rng, rng.choice(kinds), "random")
        check_case(ctx, case)
        if j < 2:
            ctx.sample(case)
