"""C19 wrapper used to drive the command-line entry point in a *separate process*: it is the body of the
`sdp` console script (`from simple_ddl_parser.cli import main; sys.exit(main())`) run under the M-FS audit
hook, whose events are written to $VF_FS_OUT at exit.   usage: python -m vf.checks.c19_cli <sdp args...>"""
import atexit
import json
import os
import sys


def _main():
    from vf.monitor import fs
    out = os.environ.get("VF_FS_OUT")
    w = fs.Watch()
    w.__enter__()

    def flush():
        w.__exit__(None, None, None)
        if out:
            try:
                with open(out, "w") as f:
                    json.dump(w.events, f)
            except Exception:
                pass
    atexit.register(flush)
    sys.argv[0] = "sdp"
    from simple_ddl_parser.cli import main
    sys.exit(main())


if __name__ == "__main__":
    _main()
