"""C12 - successful output always has the documented shape and is JSON-serialisable.

Oracle: structural invariant at the run() boundary (vf.monitor.shape) on every result of every
generator and of the regression corpus x output modes x normalize_names x group_by_type, and
run(json_dump=True) == json.dumps(run()).
"""
import json

from vf.gen import schema as S
from vf.gen import scripts as GS
from vf.gen.corpus import load as load_corpus
from vf.gen.render import finish_script, render
from vf.monitor import shape
from vf.run import MODES, parse
from vf.checks import c04
from vf.util import digest, short

LEVEL = "exploration"
NEEDS_CORPUS = True
WORKERS = {"quick": 8, "thorough": 16}
RULE = ("cases = (script, output mode, normalize_names, group_by_type): random statement mixes (%d kinds), core/clause tables, "
        "ALTER/INDEX histories (C04 generator) and every regression-corpus script; quick: all 15 modes x 2 flag settings on a "
        "sample, thorough: 15 modes x normalize_names x group_by_type on everything; each result is checked against the documented "
        "shape and json_dump=True is compared with json.dumps of the plain result. Non-trivial = the result contains at least one "
        "table with columns; distinct = distinct (script, mode, flags)."
        " Added after seeded defects: scripts from the shared pool of all generators, enumerated sort-direction patterns on key clauses with DROP TABLE entries, json_dump True/False histories on one object, keys declared twice and keys that start with the last column, ALTERs naming a column the table does not have, statements addressing an undefined table (judged only if a result is returned).") % len(GS.all_kinds())
ASSUMPTIONS = ["'primary_key names only this table's columns' is asserted for generator scripts only (corpus scripts legitimately name key columns the table does not define)",
               "scripts on which run() raises are not 'successful output' and are skipped (C16 decides them)"]
MIN_EVENTS = {"run_return": 500}


def check_case(ctx, case):
    ddl, ctor, mode, gbt = case["ddl"], case.get("ctor") or {}, case["mode"], bool(case.get("group_by_type"))
    ctx.evaluated()
    kw = {"output_mode": mode}
    if gbt:
        kw["group_by_type"] = True
    r = parse(ddl, ctor, **kw)
    if r[0] != "ok":
        ctx.obs["raises_skipped"] += 1
        return
    res = r[1]
    ents = res if isinstance(res, list) else [e for v in res.values() if isinstance(v, list) for e in v] if isinstance(res, dict) else []
    if any(isinstance(e, dict) and e.get("columns") for e in ents):
        ctx.nontrivial_case(digest(ddl + mode + str(gbt) + str(ctor)))
    ctx.obs["results_checked"] += 1
    ctx.obs["tables_checked"] += sum(1 for e in ents if isinstance(e, dict) and "table_name" in e)
    ctx.obs["columns_checked"] += sum(len(e.get("columns") or []) for e in ents if isinstance(e, dict) and isinstance(e.get("columns"), list))
    probs = shape.check(res, mode, gbt, pk_in_columns=case["gen"] != "corpus")
    if probs:
        kind = probs[0].split(": ", 1)[-1].split(" ")[0:3]
        kf = None
        dk = case.get("dropped_key_column")
        if dk and all(("primary_key names %r which is not a column of the table" % dk) in q for q in probs):
            kf = "C12:primary-key-keeps-dropped-column"      # listed defect; any other shape problem on these scripts is an ordinary violation
        ctx.violation("shape:" + "_".join(kind)[:40], case, {"problems": probs[:5]}, kf=kf)
    if case.get("json_dump"):
        ctx.evaluated()
        j = parse(ddl, ctor, json_dump=True, **kw)
        ctx.obs["json_dump_compared"] += 1
        try:
            want = json.dumps(res)
        except Exception as e:
            want = "<json.dumps failed: %r>" % (e,)
        if j[0] != "ok" or j[1] != want:
            ctx.violation("json_dump_differs", case, {"observed": short(j[1] if j[0] == "ok" else j, 300), "expected": short(want, 300)})
        # the same calls on ONE parser object, in both orders: a list of entity dicts stays one, the JSON text stays its exact encoding
        n = ctx.obs["json_dump_compared"]
        if n % 3 == 0:
            from vf.run import run_history
            for order in ((True, False, True), (False, True, False)):
                h = run_history(ddl, ctor, [dict(kw, **({"json_dump": True} if jd else {})) for jd in order])
                ctx.evaluated(3)
                ctx.obs["same_object_histories"] += 1
                for jd, r in zip(order, h):
                    wanted = want if jd else res
                    if r[0] != "ok" or r[1] != wanted or type(r[1]) is not type(wanted):
                        ctx.violation("shape_depends_on_earlier_call_on_same_object", case, {"call": "run(json_dump=%s)" % jd, "order": list(order),
                                                                                           "observed": short(r, 200), "fresh_object": short(wanted, 200)})
                        break


def gen_sources(ctx, rng):
    """yield (gen name, ddl, ctor) from the shared pool of every generator (vf.gen.sources)"""
    from vf.gen import sources
    k, ddl = sources.any_script(rng, kinds=["mixed", "mixed", "tables", "tables", "tables", "tables", "history", "dialect", "types", "idents", "entities", "sequences", "commented"],
                                   # not for the shape check: a FOREIGN KEY over columns the table does not declare (ill-formed: the library appends
                                   # type-less stubs) and a key clause that re-quotes its columns (the names differ textually from the definitions)
                                   exclude_mixed=("fk_undeclared", "pk_requoted"))
    ctx.obs["source:" + k] += 1
    return k, ddl, {}


def run_shard(ctx):
    rng = ctx.rng
    thorough = ctx.tier == "thorough"
    for j in range(ctx.budget(220, 4000)):
        gen, ddl, ctor = gen_sources(ctx, rng)
        for mode in MODES:
            if thorough:
                combos = [(False, False), (False, True), (True, False), (True, True)]
            else:
                combos = [(rng.random() < 0.5, rng.random() < 0.5)]
            for nn, gbt in combos:
                check_case(ctx, {"gen": gen, "ddl": ddl, "ctor": {"normalize_names": True} if nn else {}, "mode": mode, "group_by_type": gbt,
                                 "json_dump": thorough or rng.random() < 0.5})
        if j == 0:
            ctx.sample({"ddl": ddl[:700], "modes": MODES})
    # scripts whose result is empty: still a list / the grouped dict, and json_dump=True still the JSON text "[]"
    for q, ddl in enumerate(["", "\n", "  ", "-- c only\n", "USE db;\nGO\n", "GRANT ALL ON t TO joe;\n", "INSERT INTO t VALUES (1);\nDELETE FROM t;\n", "SELECT 1;\n", "/* b */\n"]):
        for mode in MODES:
            for nn, gbt in [(False, False), (False, True), (True, False)]:
                q += 1
                if ctx.mine(q):
                    check_case(ctx, {"gen": "empty", "ddl": ddl, "ctor": {"normalize_names": True} if nn else {}, "mode": mode, "group_by_type": gbt, "json_dump": True})
                    ctx.obs["empty_result_scripts"] += 1
    # statements that address a table the script does not define: rejected today (ValueError); should a result ever be returned instead,
    # it has to have the documented shape like any other
    for q, ddl in enumerate(["CREATE TABLE a (id int PRIMARY KEY, b int);\nCREATE INDEX ix_c ON customers (name);\n",
                             "CREATE TABLE a (id int);\nALTER TABLE customers ADD CONSTRAINT fk FOREIGN KEY (a_id) REFERENCES a (id);\n",
                             "CREATE UNIQUE INDEX ux ON s.nowhere (x DESC, y);\n", "ALTER TABLE nowhere ADD c int;\n", "ALTER TABLE nowhere DROP COLUMN c;\nCREATE TABLE z (a int);\n"]):
        for mode in ("sql", "mysql", "bigquery", "hql"):
            for gbt in (False, True):
                q += 1
                if ctx.mine(q):
                    check_case(ctx, {"gen": "orphan_statement", "ddl": ddl, "ctor": {}, "mode": mode, "group_by_type": gbt, "json_dump": True})
                    ctx.obs["orphan_statement_scripts"] += 1
    # enumerated key clauses: every pattern of sort directions over 2..3 key columns, named or not, [NON]CLUSTERED or not -
    # primary_key must stay a list of the table's column names
    import itertools
    k = 0
    for ncols in (2, 3):
        for orders in itertools.product([None, "ASC", "DESC"], repeat=ncols):
            for name in (None, "pk_t"):
                for modifier in (None, "CLUSTERED"):
                    k += 1
                    if not ctx.mine(k):
                        continue
                    cols = [S.make_column("c%d" % q, (["int"], None), []) for q in range(4)]
                    long_name = None
                    if k % 5 == 2:
                        # a key column whose name is longer than any identifier limit of a real server (64+ characters)
                        long_name = "customer_relationship_management_account_identifier_for_partner_%d" % k
                        cols[0]["name"] = long_name
                    if k % 4 == 0:
                        cols[3]["opts"] = [{"k": "pk"}]        # the key declared twice: inline on c3 and by the clause
                    cl = {"kind": "pk", "cols": [(long_name if (q == 0 and long_name) else "c%d" % q) for q in range(ncols)], "name": name, "orders": list(orders), "modifier": modifier}
                    if k % 6 in (1, 4) and not long_name:
                        cl["cols"] = ["c%d" % (3 - q) for q in range(ncols)]      # the key starts with the table's LAST column
                    t = {"schema": None, "name": "t", "prefix": "plain", "items": [("col", c) for c in cols] + [("clause", cl)]}
                    layout = [None, {"case": "lower"}][k % 2]
                    extra = []
                    if k % 3 == 1:
                        # ALTERs that name a column the table does not have: whatever they do, the key still lists columns of the table
                        extra = [["ALTER TABLE t MODIFY COLUMN zz_unknown bigint;"], ["ALTER TABLE t DROP COLUMN zz_unknown;"], ["ALTER TABLE t ALTER COLUMN zz_unknown varchar(5);"],
                                 ["ALTER TABLE t RENAME COLUMN zz_unknown TO zz_other;"], ["ALTER TABLE t ADD COLUMN c9 int;", "ALTER TABLE t MODIFY COLUMN c9 bigint;"],
                                 # ... and ALTERs of a KEY column: renamed, the key follows it; dropped (listed defect: the key keeps the name)
                                 ["ALTER TABLE t RENAME COLUMN %s TO z0;" % cl["cols"][0]], ["ALTER TABLE t RENAME COLUMN %s TO \"Z 1\";" % cl["cols"][-1], "ALTER TABLE t RENAME COLUMN c2 TO zz2;"],
                                 ["ALTER TABLE t DROP COLUMN %s;" % cl["cols"][-1]],
                                 # ... and a column ADDed with its own inline key / reference
                                 ["ALTER TABLE t ADD order_id int PRIMARY KEY;"], ["ALTER TABLE t ADD ref_id int NOT NULL REFERENCES p (k);", "ALTER TABLE t ADD y int PRIMARY KEY;"]][(k // 3) % 10]
                    ddl = finish_script([render(S.table_tokens(t), layout, rng)] + extra + ["DROP TABLE old_t;", "DROP TABLE s.old_t2;"])
                    for mode in ("sql", "mssql", "bigquery", "oracle", "postgres", "mysql"):
                        case = {"gen": "key_orders", "ddl": ddl, "ctor": {}, "mode": mode, "group_by_type": bool(k % 3 == 0), "json_dump": True}
                        if extra and extra[0].startswith("ALTER TABLE t DROP COLUMN c"):
                            case["dropped_key_column"] = cl["cols"][-1]
                        check_case(ctx, case)
                    ctx.obs["enumerated_key_order_patterns"] += 1
    # every ordered triple of ALTER kinds on one small table (the C04 history generator): whatever the order of ADD / RENAME / DROP / MODIFY /
    # keys / foreign keys, every entry of "columns" stays a complete column record and the key lists name columns of the table
    from vf.checks import c04
    focus = ["add", "rename", "fk", "fk_n", "drop", "modify", "uniq1", "pk", "readd", "default"]
    k = 0
    for k1, k2, k3 in itertools.product(focus, focus, focus):
        k += 1
        if not ctx.mine(k):
            continue
        for rep in range(1 if not thorough else 3):
            h = c04.gen_history(ctx.sub_rng("tri", k * 8 + rep), [(None, "t")], [(k1, 0), (k2, 0), (k3, 0)], styles="p", ncols=2 + (k + rep) % 2)
            ddl = "\n".join(h["stmts"]) + "\n"
            for mode in ("sql", MODES[k % len(MODES)]):
                check_case(ctx, {"gen": "alter_triple", "ddl": ddl, "ctor": {}, "mode": mode, "group_by_type": bool(k % 2), "json_dump": False})
            ctx.obs["alter_kind_triples"] += 1
    # a name defined twice (DROP TABLE t / an earlier, shorter CREATE TABLE [IF NOT EXISTS] t) and then altered: whichever entry the ALTER
    # reaches, every entry of every "columns" list stays a complete column record
    k = 0
    firsts = ["DROP TABLE {t};", "CREATE TABLE IF NOT EXISTS {t} (a int);", "CREATE TABLE {t} (a int, b int);", "DROP TABLE IF EXISTS {t};", "CREATE TABLE IF NOT EXISTS {t} (a int, b int, c int);"]
    seconds = ["CREATE TABLE IF NOT EXISTS {t} (a int, b int, c int);", "CREATE TABLE {t} (a int, b int, c int);", "CREATE TABLE IF NOT EXISTS {t} (a int PRIMARY KEY, b int, c int, d int);"]
    alters = ["ALTER TABLE {t} ADD CONSTRAINT fk_c FOREIGN KEY (c) REFERENCES p (k);", "ALTER TABLE {t} ADD FOREIGN KEY (b, c) REFERENCES p (k1, k2);", "ALTER TABLE {t} ADD e int;",
              "ALTER TABLE {t} ADD CONSTRAINT uq_c UNIQUE (c);", "ALTER TABLE {t} DROP COLUMN c;", "ALTER TABLE {t} RENAME COLUMN c TO c2;", "ALTER TABLE {t} MODIFY COLUMN c bigint;",
              "CREATE INDEX ix_c ON {t} (c);", "ALTER TABLE {t} ADD CONSTRAINT df_c DEFAULT 0 FOR c;"]
    for f, sd, al in itertools.product(firsts, seconds, alters):
        k += 1
        if not ctx.mine(k):
            continue
        t = ["t", "s.orders", '"T 1"'][k % 3]
        ddl = "\n".join(x.format(t=t) for x in (f, sd, al)) + "\n"
        for mode in ("sql", MODES[k % len(MODES)]):
            check_case(ctx, {"gen": "defined_twice_then_altered", "ddl": ddl, "ctor": {}, "mode": mode, "group_by_type": bool(k % 2), "json_dump": False})
        ctx.obs["defined_twice_then_altered"] += 1
    corp = [c for c in load_corpus() if c["ok"]]
    n = ctx.budget(96, len(corp) + ctx.nshards)
    for j in range(n):
        idx = j * ctx.nshards + ctx.shard
        if not thorough:
            idx = (idx * 11 + ctx.seed) % len(corp)
        if idx >= len(corp):
            break
        c = corp[idx]
        for mode in MODES:
            combos = [(False, False), (False, True), (True, False), (True, True)] if thorough else [(rng.random() < 0.5, rng.random() < 0.5)]
            for nn, gbt in combos:
                ct = dict(c["init_kw"])
                if nn:
                    ct["normalize_names"] = True
                check_case(ctx, {"gen": "corpus", "ddl": c["ddl"], "ctor": ct, "mode": mode, "group_by_type": gbt, "json_dump": mode in ("sql", "hql", "bigquery")})
        ctx.obs["corpus_scripts"] += 1
