"""C04 - ALTER TABLE / CREATE INDEX change exactly the table they name, as declared.

Oracle: an executable sequential model of the table registry (dict keyed by the normalised
(name, schema)) run over the same statement history ("history + model"), compared table by table
with the real result; independently M-REG asserts the frame condition on the live table objects
at every add_alter_to_table / add_index_to_table return.
"""
import copy
import itertools
import re

from vf.monitor.hooks import STATE
from vf.run import entities, parse
from vf.util import ddiff, digest, short

LEVEL = "exploration"
WORKERS = {"quick": 8, "thorough": 16}
RULE = ("cases = histories: 1..4 CREATE TABLE (same name in 2-3 schemas and without schema) followed by 1..8 ALTER TABLE / CREATE "
        "INDEX statements of 14 kinds (ADD column [DEFAULT], DROP/RENAME/MODIFY COLUMN, ADD [CONSTRAINT] UNIQUE 1/n columns, "
        "PRIMARY KEY, CHECK, DEFAULT .. FOR a[, b], FOREIGN KEY 1/n columns, CREATE [UNIQUE] INDEX with ASC/DESC/asc/desc), table "
        "and column references re-spelled (upper, lower, \"..\", [..], `..`); exhaustive (alter kind x reference spelling x which "
        "twin) first, then seeded random; every history is also run with one extra statement naming an undefined (schema, table), "
        "which must raise. Non-trivial = >= 1 ALTER/INDEX on a script with >= 2 tables or a re-spelled reference; distinct = text."
        " Added after seeded defects: index-only columns called like ALTER keywords, IF EXISTS / ONLY noise words, spelled rename targets, every 4th history also in a dialect mode, "
        "every ordered triple of statement kinds on one 2-3 column table (quick: 8 kinds, thorough: all 15; more column draws when a kind repeats), multi-column foreign keys whose "
        "referenced columns are called like the key columns in another order, renames that only re-spell the old name, every 7th random history without any ';' (possible since fix F18), tables named t / t#1, columns added with an inline REFERENCES; "
        "wave 9/10: index columns called like lexer keywords (type, comment, key, order ...), a dropped column added again (ADD; DROP c; ADD c), one more word after a complete statement "
        "(DROP COLUMN b CASCADE, PRIMARY KEY (a) ENABLE, CREATE INDEX .. NOLOGGING) on qualified and unqualified tables.")
ASSUMPTIONS = ["columns named in ADD UNIQUE / ADD DEFAULT .. FOR / index lists use the column's current spelling (the property claims quoting/case-insensitive matching for tables, and DROP/RENAME/MODIFY COLUMN)",
               "alter.columns records are checked by number (an added column is the same object as the table column, so a later RENAME shows in it) plus the full FK records",
               "ADD column only with name/type/size/DEFAULT"]
MIN_EVENTS = {"statements": 100, "run_return": 100, "reg_changed_1": 50}


def norm(n):
    return re.sub(r'[\[\]"`]', "", n).lower() if n is not None else None


SPELL = {
    "p": lambda n: n, "u": lambda n: n.upper(), "l": lambda n: n.lower(),
    "d": lambda n: '"%s"' % n, "k": lambda n: "[%s]" % n, "b": lambda n: "`%s`" % n,
    "D": lambda n: '"%s"' % n.upper(),
}


def spell(rng, n, styles="puldkbD"):
    if n is None:
        return None
    if "#" in n:
        styles = "".join(c for c in styles if c in "pd") or "p"      # a '#' name is written plain or between double quotes
    return SPELL[rng.choice(styles)](n)


def qual(schema, name):
    return (schema + "." if schema else "") + name


# column names that are keywords of the lexer: plain names in CREATE TABLE / CREATE INDEX column lists (calibrated on the pinned tree); inside an ALTER
# statement several of them are keywords by design, so they are only used in index lists
INDEX_ONLY_WORDS = ["rename", "modify", "column", "Modify", "COLUMN", "type", "comment", "key", "default", "references", "schema", "sequence", "domain", "tag",
                    "options", "Type", "COMMENT", "table", "database", "location", "format", "stored", "using", "storage", "cache", "start", "order"]

KINDS = ["add", "add_default", "add_ref", "readd", "drop", "rename", "modify", "uniq1", "uniq_n", "pk", "pk_unnamed", "check", "default", "fk", "fk_n", "index", "uindex"]


class Model:
    def __init__(self):
        self.tables = []        # in creation order
        self.by_key = {}
        self.counter = 0

    def create(self, schema, name, cols, index_only=None):
        t = {"schema": schema, "name": name, "cols": [{"name": c, "type": "int", "size": None, "default": None, "unique": False} for c in cols],
             "alter": {}, "index": []}
        if index_only:
            # a column whose name is an ALTER-only keyword (RENAME, MODIFY, COLUMN ...): a plain name in CREATE TABLE / CREATE INDEX;
            # it is only ever used in index column lists (inside an ALTER statement the word is a keyword by design)
            t["cols"].append({"name": index_only, "type": "int", "size": None, "default": None, "unique": False, "index_only": True})
            cols = list(cols) + [index_only]
        self.tables.append(t)
        self.by_key[(norm(name), norm(schema))] = t
        return "CREATE TABLE %s (%s);" % (qual(schema, name), ", ".join(c + " int" for c in cols))

    def apply(self, rng, t, kind, ref):
        """mutate the model table t and return the statement text (ref = spelled table reference), or None if not applicable"""
        self.counter += 1
        k = self.counter
        names = [c["name"] for c in t["cols"] if not c.get("index_only") or kind in ("index", "uindex")]
        a = t["alter"]
        if kind in ("add", "add_default"):
            nm = "n%d" % k
            if kind == "add":
                t["cols"].append({"name": nm, "type": "varchar", "size": 7, "default": None, "unique": False})
                a.setdefault("columns", []).append("col")
                return "ALTER TABLE %s ADD %s varchar(7);" % (ref, nm)
            t["cols"].append({"name": nm, "type": "int", "size": None, "default": 5, "unique": False})
            a.setdefault("columns", []).append("col")
            return "ALTER TABLE %s ADD %s int DEFAULT 5;" % (ref, nm)
        if kind == "add_ref":
            # a column added with its own inline REFERENCES: it is a column of the table like any other added column
            nm = "fk%dcol" % k
            t["cols"].append({"name": nm, "type": "int", "size": None, "default": None, "unique": False})
            a.setdefault("columns", []).append("col")
            return "ALTER TABLE %s ADD %s int REFERENCES crm.customers (id)%s;" % (ref, nm, rng.choice(["", " ON DELETE CASCADE"]))
        if kind == "readd":
            # a column that an earlier statement dropped is added again (as a new column, at the end)
            # ... or a name that an earlier RENAME COLUMN gave up ("keep the old data": RENAME price TO price_old; ADD price)
            gone = [c for c in t.get("dropped", []) + t.get("renamed_away", []) if norm(c) not in [norm(x["name"]) for x in t["cols"]]]
            if not gone:
                return None
            nm = rng.choice(gone)
            t["cols"].append({"name": nm, "type": "varchar", "size": 9, "default": None, "unique": False})
            a.setdefault("columns", []).append("col")
            return "ALTER TABLE %s ADD %s varchar(9);" % (ref, nm)
        if kind == "drop":
            if len(names) < 2:
                return None
            c = rng.choice(names)
            sp = spell(rng, c) if c.isalnum() else c
            t["cols"] = [x for x in t["cols"] if x["name"] != c]
            t.setdefault("dropped", []).append(c)
            a["dropped_columns"] = c
            return "ALTER TABLE %s DROP COLUMN %s;" % (ref, sp)
        if kind == "rename":
            c = rng.choice(names)
            sp = spell(rng, c) if c.isalnum() else c
            nm = rng.choice(["r%d", "r%d", "R_%d", '"Rn%d"', "[RN%d]", "`Rn_%d`", "MixedName%d"]) % k      # the new name is reported exactly as written
            if c.isalnum() and rng.random() < 0.2:
                nm = rng.choice([c.upper(), '"%s"' % c.capitalize(), "[%s]" % c, c.capitalize()])      # ... also when it only re-spells the old one (case / delimiters)
                if nm == c:
                    nm = '"%s"' % c
            for x in t["cols"]:
                if x["name"] == c:
                    x["name"] = nm
            t.setdefault("renamed_away", []).append(c)
            a.setdefault("renamed_columns", []).append({"from": sp, "to": nm})
            return "ALTER TABLE %s RENAME COLUMN %s TO %s;" % (ref, sp, nm)
        if kind == "modify":
            c = rng.choice(names)
            sp = spell(rng, c) if c.isalnum() else c
            for x in t["cols"]:
                if x["name"] == c:
                    x.update({"name": sp, "type": "bigint", "size": None, "default": None, "unique": False})
            a["modified_columns"] = c
            return "ALTER TABLE %s MODIFY COLUMN %s bigint;" % (ref, sp)
        if kind == "uniq1":
            c = rng.choice(names)
            named = rng.random() < 0.5
            for x in t["cols"]:
                if x["name"] == c:
                    x["unique"] = True
            a.setdefault("uniques", []).append({"constraint_name": "uq%d" % k if named else None, "columns": [c]})
            return "ALTER TABLE %s ADD %sUNIQUE (%s);" % (ref, "CONSTRAINT uq%d " % k if named else "", c)
        if kind == "uniq_n":
            if len(names) < 2:
                return None
            cs = rng.sample(names, rng.randint(2, min(3, len(names))))
            a.setdefault("uniques", []).append({"constraint_name": "uq%d" % k, "columns": cs})
            return "ALTER TABLE %s ADD CONSTRAINT uq%d UNIQUE (%s);" % (ref, k, ", ".join(cs))
        if kind in ("pk", "pk_unnamed"):
            cs = rng.sample(names, rng.randint(1, min(2, len(names))))
            named = kind == "pk"
            a.setdefault("primary_keys", []).append({"constraint_name": "pk%d" % k if named else None, "columns": cs})
            return "ALTER TABLE %s ADD %sPRIMARY KEY (%s);" % (ref, "CONSTRAINT pk%d " % k if named else "", ", ".join(cs))
        if kind == "check":
            c = rng.choice(names)
            named = rng.random() < 0.6
            st = "%s > %d" % (c, k)
            a.setdefault("checks", []).append({"constraint_name": "ck%d" % k if named else None, "statement": st})
            return "ALTER TABLE %s ADD %sCHECK (%s);" % (ref, "CONSTRAINT ck%d " % k if named else "", st)
        if kind == "default":
            cs = rng.sample(names, rng.randint(1, min(2, len(names))))
            v = str(k + 10)
            for x in t["cols"]:
                if x["name"] in cs:
                    x["default"] = v
            a.setdefault("defaults", []).append({"constraint_name": "df%d" % k, "columns": cs, "value": v})
            return "ALTER TABLE %s ADD CONSTRAINT df%d DEFAULT %s FOR %s;" % (ref, k, v, ", ".join(cs))
        if kind in ("fk", "fk_n"):
            m = 1 if kind == "fk" else min(2, len(names))
            cs = rng.sample(names, m)
            named = rng.random() < 0.6
            rs = rng.choice([None, "zz"])
            act = rng.choice([None, "CASCADE"])
            refcols = ["k%d" % j for j in range(len(cs))]
            if len(cs) > 1 and rng.random() < 0.4:
                # the referenced columns are called like the key columns, in another order (pairs are made by position, not by name)
                refcols = rng.choice([cs[1:] + cs[:1], [cs[1], "k9"] + cs[2:], ["k9", cs[0]] + cs[2:]])
            for j, c in enumerate(cs):
                a.setdefault("columns", []).append({"name": c, "constraint_name": "fk%d" % k if named else None,
                                                    "references": {"table": "p", "schema": rs, "on_delete": act, "on_update": None,
                                                                   "deferrable_initially": None, "column": refcols[j]}})
            return "ALTER TABLE %s ADD %sFOREIGN KEY (%s) REFERENCES %s (%s)%s;" % (
                ref, "CONSTRAINT fk%d " % k if named else "", ", ".join(cs), qual(rs, "p"), ", ".join(refcols),
                " ON DELETE " + act if act else "")
        if kind in ("index", "uindex"):
            cs = rng.sample(names, rng.randint(1, min(3, len(names))))
            dirs = [rng.choice(["", "ASC", "DESC", "desc", "asc", "Desc"]) for _ in cs]
            t["index"].append({"index_name": "ix%d" % k, "unique": kind == "uindex", "columns": cs,
                               "detailed_columns": [{"name": c, "order": (d.upper() or "ASC"), "nulls": "LAST"} for c, d in zip(cs, dirs)]})
            return "CREATE %sINDEX ix%d ON %s (%s);" % ("UNIQUE " if kind == "uindex" else "", k, ref, ", ".join((c + " " + d).strip() for c, d in zip(cs, dirs)))
        raise ValueError(kind)

    def snapshot(self):
        return copy.deepcopy(self.tables)


TABLE_SETS = [
    [(None, "t")], [("sa", "t")], [("sa", "t"), ("sb", "t")], [(None, "t"), ("sa", "t")], [(None, "t"), ("sa", "t"), ("sb", "t")],
    [("sa", "Orders"), (None, "u")], [("sa", "t"), ("sb", "t"), (None, "Orders"), ("sb", "u")], [("Sa", "T"), ("sb", "t")],
    # a table whose name continues another table's name after a '#' (legal in unquoted names of several dialects)
    [(None, "orders"), (None, "orders#archive")], [("sa", "t"), ("sa", "t#1"), (None, "t#1")],
]


def gen_history(rng, table_set=None, plan=None, styles="puldkbD", ncols=None):
    m = Model()
    stmts = []
    tset = table_set or rng.choice(TABLE_SETS)
    for schema, name in tset:
        stmts.append(m.create(schema, name, ["a", "b", "c", "d"][:ncols or rng.randint(2, 4)],
                              index_only=rng.choice(INDEX_ONLY_WORDS) if rng.random() < 0.3 else None))
    n_alter = 0
    respelled = False
    steps = plan or [(rng.choice(KINDS), None) for _ in range(rng.randint(1, 8))]
    for kind, which in steps:
        t = m.tables[which % len(m.tables)] if which is not None else rng.choice(m.tables)
        rs, rn = spell(rng, t["schema"], styles), spell(rng, t["name"], styles)
        ref = qual(rs, rn)
        st = m.apply(rng, t, kind, ref)
        if st is None:
            continue
        if (rs, rn) != (t["schema"], t["name"]):
            respelled = True
        if st.startswith("ALTER TABLE ") and rng.random() < 0.15:
            st = "ALTER TABLE " + rng.choice(["IF EXISTS ", "ONLY "]) + st[len("ALTER TABLE "):]      # same statement, optional noise words
        stmts.append(st)
        n_alter += 1
    # a statement naming a table that is not defined
    ghost_schema, ghost_name = rng.choice([(None, "ghost"), ("nosuch", tset[0][1]), (None if tset[0][0] else "nosuch", tset[0][1]), ("sa", "ghost")])
    if (norm(ghost_name), norm(ghost_schema)) in m.by_key:
        ghost_schema, ghost_name = "nosuch", "ghost"
    gkind = rng.choice(["ALTER TABLE %s ADD g1 int;", "CREATE INDEX gx ON %s (a);", "ALTER TABLE %s DROP COLUMN a;", "ALTER TABLE %s ADD CONSTRAINT gu UNIQUE (a);",
                        "ALTER TABLE IF EXISTS %s ADD g1 int;", "ALTER TABLE ONLY %s ADD g2 int;"])
    ghost = gkind % qual(ghost_schema, ghost_name)
    return {"stmts": stmts, "model": m.snapshot(), "ghost": ghost, "n_alter": n_alter, "respelled": respelled, "n_tables": len(tset)}


def compare(ent, t):
    errs = []
    if ent.get("table_name") != t["name"] or ent.get("schema") != t["schema"]:
        return [("identity", [ent.get("schema"), ent.get("table_name")], [t["schema"], t["name"]])]
    cols = ent.get("columns", [])
    if any(not isinstance(c, dict) or "type" not in c for c in cols):
        errs.append(("column_without_type", short(cols, 300), None))
        return errs
    got = [[c.get("name"), c.get("type"), c.get("size"), c.get("default"), c.get("unique")] for c in cols]
    exp = [[c["name"], c["type"], c["size"], c["default"], c["unique"]] for c in t["cols"]]
    if got != exp:
        errs.append(("columns", got, exp))
    a, ma = ent.get("alter", {}), t["alter"]
    if sorted(a) != sorted(ma):
        errs.append(("alter_keys", sorted(a), sorted(ma)))
        return errs
    for key in ("uniques", "primary_keys", "checks"):
        if key in ma and a[key] != ma[key]:
            errs.append(("alter." + key, a[key], ma[key]))
    if "defaults" in ma:
        g = [dict(d, columns=[c for c in d.get("columns", []) if c != ","]) for d in a["defaults"]]
        if g != ma["defaults"]:
            errs.append(("alter.defaults", a["defaults"], ma["defaults"]))
    if "columns" in ma:
        if len(a["columns"]) != len(ma["columns"]):
            errs.append(("alter.columns#", len(a["columns"]), len(ma["columns"])))
        else:
            for g, e in zip(a["columns"], ma["columns"]):
                if e == "col":
                    if "type" not in g:
                        errs.append(("alter.columns(kind)", short(g, 200), "an added column"))
                elif g != e:
                    errs.append(("alter.columns(fk)", g, e))
    if "renamed_columns" in ma and a["renamed_columns"] != ma["renamed_columns"]:
        errs.append(("alter.renamed_columns", a["renamed_columns"], ma["renamed_columns"]))
    for key in ("dropped_columns", "modified_columns"):
        if key in ma:
            g = a[key].get("name") if isinstance(a[key], dict) else a[key]
            if g != ma[key]:
                errs.append(("alter." + key, a[key], ma[key]))
    got_index = ent.get("index")
    if isinstance(got_index, list):
        # a word after the column list (NOLOGGING, ONLINE ...) is kept under an extra key of the index entry: not part of what the property lists
        got_index = [{k: v for k, v in x.items() if k != "authorization"} if isinstance(x, dict) else x for x in got_index]
    if got_index != t["index"]:
        errs.append(("index", ent.get("index"), t["index"]))
    return errs


def check_case(ctx, case):
    ctx.evaluated()
    text = "\n".join(case["stmts"]) + "\n"
    if case.get("unterminated"):
        # no ';' at all: every statement is closed by the start of the next one (each begins a line with CREATE / ALTER), the last by the end of input
        text = "\n".join(st[:-1] if st.endswith(";") else st for st in case["stmts"]) + ("\n" if case["unterminated"] == "newline" else "")
        ctx.obs["histories_without_terminators"] += 1
    if case["n_alter"] and (case["n_tables"] > 1 or case["respelled"]):
        ctx.nontrivial_case(digest(text))
    nfr = STATE.counters.get("reg_frame_violation", 0)
    r = parse(text, {"silent": False})
    kf = case.get("kf")
    if r[0] == "exc":
        ctx.violation("exception", case, {"exception": r[1], "message": r[2]}, kf=kf)
        return
    ents = entities(r[1])
    model = case["model"]
    if len(ents) != len(model):
        ctx.violation("table_count", case, {"observed": len(ents), "expected": len(model)}, kf=kf)
        return
    for ent, t in zip(ents, model):
        errs = compare(ent, t)
        if errs:
            ctx.violation(errs[0][0], case, {"table": [t["schema"], t["name"]], "diffs": [(w, short(o, 300), short(x, 300)) for w, o, x in errs[:3]]}, kf=kf)
            break
    if case.get("solo"):
        return
    # the same history in a dialect output mode: ALTER / INDEX statements must reach the same tables with the same effect
    n = ctx.obs["histories_checked"] = ctx.obs["histories_checked"] + 1
    if n % 4 == 0:
        from vf.checks.c10 import ren
        mode = ["bigquery", "hql", "postgres", "mysql", "snowflake", "bigquery"][(n // 4) % 6]
        ctx.evaluated()
        rm = parse(text, {"silent": False}, output_mode=mode)
        ctx.obs["histories_in_dialect_mode"] += 1
        if rm[0] == "exc":
            ctx.violation("exception_in_dialect_mode", dict(case, mode=mode), {"mode": mode, "exception": rm[1], "message": rm[2]})
        else:
            ents_m = [ren(e) for e in entities(rm[1])]
            if len(ents_m) != len(model):
                ctx.violation("table_count", dict(case, mode=mode), {"mode": mode, "observed": len(ents_m), "expected": len(model)})
            else:
                for ent, t in zip(ents_m, model):
                    errs = compare(ent, t)
                    if errs:
                        ctx.violation(errs[0][0], dict(case, mode=mode), {"mode": mode, "table": [t["schema"], t["name"]], "diffs": [(w, short(o, 300), short(x, 300)) for w, o, x in errs[:3]]})
                        break
    if STATE.counters.get("reg_frame_violation", 0) > nfr:
        ctx.violation("frame_condition", case, {"monitor": "M-REG", "witness": STATE.reg_violations[-2:]})
    ctx.obs["alter_index_statements"] += case["n_alter"]
    ctx.obs["tables_compared"] += len(model)
    # the undefined-table statement must raise (any exception); silence is the violation
    gtext = text.rstrip("\n") + "\n" + case["ghost"] + "\n"
    g = parse(gtext, {"silent": False})
    ctx.obs["undefined_table_statements"] += 1
    if g[0] == "ok":
        ctx.violation("undefined_table_accepted", dict(case, with_ghost=True), {"statement": case["ghost"], "result_tables": [[e.get("schema"), e.get("table_name")] for e in entities(g[1])]})
    g2 = parse(gtext)
    if g2[0] == "ok":
        ctx.violation("undefined_table_accepted_silent", dict(case, with_ghost=True), {"statement": case["ghost"]})


TRAILING = {"drop": ["CASCADE", "RESTRICT", "cascade"], "rename": ["CASCADE"], "pk": ["ENABLE", "DISABLE"], "uniq1": ["ENABLE"], "uniq_n": ["ENABLE"], "fk": ["ENABLE", "NOVALIDATE"],
            "index": ["NOLOGGING", "ONLINE", "LOCAL"], "uindex": ["NOLOGGING", "ONLINE"]}


def trailing_cases(ctx, n):
    """one more word after a complete ALTER TABLE / CREATE INDEX statement (DROP COLUMN b CASCADE, ... PRIMARY KEY (a) ENABLE, CREATE INDEX .. NOLOGGING):
    the statement still changes the table it names the way it declares (with an unqualified table the word used to overwrite the last field of the
    statement - DROP COLUMN b CASCADE dropped the columns c, a, s, d, e - repaired by fix F20)."""
    rng = ctx.rng
    for j in range(n):
        kind = rng.choice(sorted(TRAILING))
        qualified = j % 3 != 2
        tset = rng.choice([[("s1", "t")], [("sa", "t"), ("sb", "t")], [("Sa", "Orders"), ("sa", "u")]]) if qualified else rng.choice([[(None, "t")], [(None, "t"), (None, "u")]])
        case = gen_history(rng, tset, [(kind, rng.randrange(len(tset)))], styles="puld" if qualified else "pul", ncols=3)
        st = case["stmts"][-1]
        if not (st.startswith(("ALTER TABLE", "CREATE")) and case["n_alter"] == 1):
            continue
        case["stmts"][-1] = st[:-1] + " " + rng.choice(TRAILING[kind]) + ";"
        case["gen"] = "trailing_word"
        case["solo"] = True
        yield case


def run_shard(ctx):
    rng = ctx.rng
    i = 0
    for case in trailing_cases(ctx, ctx.budget(240, 3000)):
        check_case(ctx, case)
        ctx.obs["trailing_word_statements"] += 1
    for kind in KINDS:
        for style in "puldkbD":
            for tset in TABLE_SETS:
                for which in range(min(len(tset), 3)):
                    i += 1
                    if not ctx.mine(i):
                        continue
                    if ctx.tier == "quick" and i % 3:
                        continue
                    case = gen_history(ctx.sub_rng("exh", i), tset, [(kind, which)], styles=style)
                    case["gen"] = "exhaustive"
                    check_case(ctx, case)
                    ctx.obs["exhaustive_cases"] += 1
    # every ordered triple of statement kinds on ONE small table (what an ALTER does may not depend on what earlier ALTERs of the same
    # table did to other columns: ADD UNIQUE (x); MODIFY x; ADD UNIQUE (y) ...), several draws of the columns each
    focus = ["uniq1", "modify", "rename", "drop", "add", "default", "pk", "fk_n"] if ctx.tier == "quick" else KINDS
    for k1, k2, k3 in itertools.product(focus, focus, focus):
        i += 1
        if not ctx.mine(i):
            continue
        reps = (4 if ctx.tier == "quick" else 3) * (1 if len({k1, k2, k3}) == 3 else 4)     # a kind applied twice: more draws of its columns
        for rep in range(reps):
            case = gen_history(ctx.sub_rng("tri", i * 16 + rep), [(None, "t")], [(k1, 0), (k2, 0), (k3, 0)], styles="p", ncols=2 + rep % 2)
            case["gen"] = "triple"
            check_case(ctx, case)
            ctx.obs["kind_triples"] += 1
    # a name given up by RENAME COLUMN / DROP COLUMN is added again, then any third statement
    for first in ("rename", "drop"):
        for k3 in KINDS:
            for rep in range(3 if ctx.tier == "quick" else 12):
                i += 1
                if not ctx.mine(i):
                    continue
                case = gen_history(ctx.sub_rng("readd", i), [(None, "t")], [(first, 0), ("readd", 0), (k3, 0)], styles="p", ncols=2 + rep % 3)
                case["gen"] = "readd_after_" + first
                check_case(ctx, case)
                ctx.obs["names_added_again_after_" + first] += 1
    for j in range(ctx.budget(1500, 50000)):
        case = gen_history(rng)
        case["gen"] = "random"
        if j % 7 == 3:
            case["unterminated"] = rng.choice(["newline", "no_newline"])
        check_case(ctx, case)
        if j == 0:
            ctx.sample({"script": "\n".join(case["stmts"]), "undefined_table_statement": case["ghost"], "model": case["model"]})
