"""C08 - comments never change what is parsed and are reported separately.

Oracle (metamorphic, relational over executions): entities(script + comments) == entities(script);
comment text (unique marker words) never appears inside an entity; every item of the `comments`
entry is contained (white space removed) in one inserted comment line and items come in source order.
"""
import json
import re

from vf.gen import stmts as G
from vf.run import comments_of, entities, parse
from vf.util import ddiff, digest, short

LEVEL = "exploration"
WORKERS = {"quick": 8, "thorough": 16}
RULE = ("cases = a generated multi-statement script (one column per line where possible) with comments inserted: whole-line '--', "
        "'#', '/* .. */' (indented or not) and block comments of 2..5 lines at column 0 before/after/between every line (also "
        "inside statements), trailing '--' and '/* .. */' after the code of a line; comment texts from a quote-free alphabet with "
        "SQL keywords, , ( ) ; = % #, whole statements ('create table x (y int);'), each carrying a unique marker word; exhaustive "
        "(style x text x line position) over two base scripts, then seeded random multi-insertion scripts. Indented multi-line block "
        "comments and comments containing another comment marker are generated as separate, single-comment cases (known findings). "
        "Non-trivial = at least one comment inserted; distinct = distinct commented script."
        " Added after seeded defects: interior and closing lines of block comments that start like ignored lines or comments, '--' inside '--' comments, '#text' / '##text', end-of-input tails (no final ';', no final newline), the comments entry on a second run of the same object, comment text glued to the dashes or the opener, comments glued to the code, a block comment's closing line that goes on with another comment, comment texts with '; create ...' and with parentheses that do not pair up, statements closed by the start of the next statement instead of ';', texts with [ ] ` delimiters, bracket-named (mssql) bases, a quarter of the cases with normalize_names=True.")
ASSUMPTIONS = ["comment texts contain no quotes and (outside the known-finding class) none of the sequences --, /*, */",
               "no code follows a comment on the same line", "containment of a reported comment item is tested after removing white space (the pre-processor re-spaces , ( ) = inside comment text too)"]
MIN_EVENTS = {"statements": 100, "run_return": 100}

TEXTS = ["plain words", "create table x (y int);", "a, b (c) ; d", "select * from t", "x = 1", "50% done", "KEY index unique primary",
         "alter table t drop column a;", "NOT NULL DEFAULT 5", "todo: fix (later), maybe", "#hash inside", "CREATE SEQUENCE s START 1;", "ends with semicolon;", "a;b;c",
         # a statement terminator followed by a statement keyword inside the text; parentheses that do not pair up
         "old layout; create table zz (q int);", "was bigint; DROP TABLE t1 once migrated", "x; alter table t add y int", "a;CREATE TABLE q (z int)", "done ; Create index i on t (a);",
         "surrogate key (see ticket 12", "1) short code", "end of t1 (legacy", "((", "))", ") (",
         # delimiters of other name styles inside the text
         "see note [1]", "FK to [dbo].[customers]", "uses `x` and `y`", "[", "]", "`"]
NESTED = ["50% done -- nested", "a /* b", "a */ b", "x -- y", "-- double", "a /* b */ c"]
# a '--' inside a '--' comment is ordinary comment text (only '--' inside /* */ and /* inside -- are the known finding)
DASH_TEXTS = ["first remark -- second remark", "-- banner --", "a--b", "ends with dashes --", "50% -- done (later), x = 1"]
INTERIOR_FIRST = ["delete", "DELETE", "insert", "INSERT", "GO", "go", "USE", "use", "GRANT", "grant", "update", "select", "CREATE", "create", "ALTER", "DROP",
                  "SET", "set", "PRIMARY KEY", "CONSTRAINT", "*", "--", "#", "commit;"]
BASES = [
    ["CREATE TABLE s.t (", "  a int NOT NULL,", "  b varchar(10) DEFAULT 'x',", "  c date", ");", "CREATE SEQUENCE s.q START WITH 3;"],
    ["CREATE TABLE t1 (a int PRIMARY KEY, b decimal(10,2));", "ALTER TABLE t1 ADD CONSTRAINT fk FOREIGN KEY (a) REFERENCES p (k);", "CREATE INDEX i ON t1 (b);"],
]
KINDS = ["core_table", "tbl_ml", "tbl_uq", "tbl_ine", "check", "fk_table", "seq", "seq_ml", "type_enum", "type_obj", "domain", "schema", "schema_auth",
         "db", "tspace", "drop", "hql_ml", "hql", "mysql", "snowflake", "alter_group", "alter_group2", "alter_pk", "set", "mssql", "bigquery", "cross_quoted"]


INNER_UNTERMINATED_P = 0.2
_NO_SEMI = [False]


def pool(extra=()):
    """comment texts; for scripts whose statements are not ';'-terminated only texts without ';' (there a ';' at the end of a physical line
    is the statement terminator wherever it stands)"""
    t = TEXTS + list(extra)
    return [x for x in t if ";" not in x] if _NO_SEMI[0] else t


class Marker:
    def __init__(self):
        self.n = 0

    def next(self):
        self.n += 1
        return "zqx%d" % self.n


_BASE_LINES = [None]      # the code lines of the script being commented (random cases): a block comment may hold verbatim copies of them


def _copy_of_code_line(rng):
    cand = [l for l in (_BASE_LINES[0] or []) if l.strip() and not any(x in l for x in ("/*", "*/", "--", "'", '"', "#"))]
    return rng.choice(cand) if cand else None


def make_comment(rng, style, mk, text=None, indent=""):
    """returns (lines, [comment line texts as inserted (for containment)], marker ids)"""
    t = text if text is not None else rng.choice(pool(DASH_TEXTS if style == "dash" else []))
    m = mk.next()
    if style == "dash":
        l = [indent + rng.choice(["-- ", "-- ", "--", "--\t", "---"]) + m + " " + t]       # text glued to the dashes, a tab, a third dash
    elif style == "hash":
        # text glued to the '#', a doubled '#', or the usual blank after it
        l = [indent + rng.choice(["# ", "# ", "#", "##", "#!"]) + m + " " + t]
    elif style == "block1":
        l = [indent + "/* " + m + " " + t + " */"]
    elif style in ("blockml", "blockml_close_inline"):
        n = rng.randint(2, 5) if rng.random() < 0.4 else rng.randint(3, 5)
        l = [indent + "/* " + m + " " + t]
        for j in range(n - 2):
            cp = _copy_of_code_line(rng) if (not indent and rng.random() < 0.25) else None
            if cp is not None:
                # a commented-out copy of a code line of the same script, character for character (no marker word: it is the code line's text)
                l.append(cp)
            elif not indent and rng.random() < 0.5:
                # an interior line that starts, at column 0, with a word the line pre-processor treats specially outside comments
                l.append(rng.choice(INTERIOR_FIRST) + " " + mk.next() + " more " + rng.choice(pool()))
            else:
                l.append(indent + "   " + mk.next() + " more " + rng.choice(pool()))
        if style == "blockml":
            l.append(indent + "*/")
            if not indent and rng.random() < 0.3:
                # the closing line goes on with another comment (the line still belongs to the block comment as a whole)
                l[-1] += rng.choice([" -- " + mk.next() + " trailing note", " /* " + mk.next() + " second remark */", " --" + mk.next(), " # " + mk.next() + " x"])
        elif not indent and rng.random() < 0.4:
            # the closing line itself starts, at column 0, like a comment / an ignored line
            l.append(rng.choice(["--", "#", "-- x", "delete", "GO", "INSERT"]) + " " + mk.next() + " last " + t + " */")
        else:
            l.append(indent + "   " + mk.next() + " last " + t + " */")
    else:
        raise ValueError(style)
    return l


def trailing(rng, style, mk, text=None):
    t = text if text is not None else rng.choice(pool(DASH_TEXTS if style == "tdash" else []))
    m = mk.next()
    if style == "tdash":
        # ... the usual ' -- text', the text glued to the dashes, the dashes glued to the code
        return rng.choice([" -- ", " -- ", " --", "--", " --\t", "-- "]) + m + " " + t
    return rng.choice([" /* ", " /* ", " /*", "/*", "/* "]) + m + " " + t + rng.choice([" */", " */", "*/"])


def squash(s):
    return re.sub(r"\s+", "", s)


def check_case(ctx, case):
    ctx.evaluated()
    base_lines, lines, inserted = list(case["base"]), list(case["lines"]), case["inserted"]
    end = "\n"
    if case.get("tail") and any(l.lstrip().upper().startswith("SET ") for l in base_lines[-1:]):
        # a SET line is only flushed by a following line: 'SET x = y;' as the very last line without a newline is dropped on the
        # pinned tree with or without comments (no property claims it), so tails are not varied after a final SET
        case = dict(case, tail=None)
    if case.get("tail") in ("unterminated", "unterminated_no_newline") and base_lines and base_lines[-1].rstrip().endswith(";"):
        # the last statement is closed by the end of the input instead of ';' (in the plain and in the commented script alike)
        last = base_lines[-1]
        idx = max(i for i, l in enumerate(lines) if l.startswith(last))
        lines[idx] = lines[idx].replace(last, last.rstrip()[:-1], 1)
        base_lines[-1] = last.rstrip()[:-1]
    if case.get("inner_unterminated"):
        # statements that are closed by the start of the next one (a line beginning with CREATE / ALTER / DROP) instead of ';' - in the plain
        # and in the commented script alike
        bi = 0
        for li, l in enumerate(lines):
            if bi < len(base_lines) and l.startswith(base_lines[bi]):
                b = base_lines[bi]
                if bi + 1 < len(base_lines) and b.rstrip().endswith(";") and re.match(r"(CREATE|ALTER|DROP)\s", base_lines[bi + 1], re.I):
                    lines[li] = l.replace(b, b.rstrip()[:-1], 1)
                    base_lines[bi] = b.rstrip()[:-1]
                    ctx.obs["inner_statements_without_terminator"] += 1
                bi += 1
    if case.get("tail") in ("no_newline", "unterminated_no_newline"):
        end = ""
    text = "\n".join(lines) + end
    if case.get("final_comment_no_newline"):
        # the plain script ends with its newline; the commented one goes on with ONE comment line that the input ends in (no newline after it)
        text = "\n".join(lines)
        end = "\n"
    if inserted:
        ctx.nontrivial_case(digest(text))
    kf = case.get("kf")
    ctor = case.get("ctor") or None
    b = parse("\n".join(base_lines) + end, ctor)
    if b[0] != "ok":
        ctx.inconclusive_because("base script raises: %s" % (b,))
        return
    r = parse(text, ctor)
    ctx.obs["comments_inserted"] += len(inserted)
    if ctor:
        ctx.obs["cases_with_normalize_names"] += 1
    for st in case.get("styles", []):
        ctx.obs["style:" + st] += 1
    if r[0] == "exc":
        ctx.violation("exception", dict(case, script=text), {"exception": r[1], "message": r[2]}, kf=kf)
        return
    ents, coms = entities(r[1]), comments_of(r[1])
    bents = entities(b[1])
    if ents != bents:
        ctx.violation("entities_changed", dict(case, script=text), {"diffs": [(p, short(x, 150), short(y, 150)) for p, x, y in ddiff(ents, bents)[:4]]}, kf=kf)
        return
    blob = json.dumps(ents)
    if "zqx" in blob:
        ctx.violation("comment_text_inside_entity", dict(case, script=text), {"where": blob[max(0, blob.find("zqx") - 60):blob.find("zqx") + 60]}, kf=kf)
    alltext = [squash(x) for x in inserted]
    order = []
    for item in coms:
        ctx.obs["comment_items_checked"] += 1
        if not isinstance(item, str):
            ctx.violation("comment_item_not_text", dict(case, script=text), {"item": short(item, 100)}, kf=kf)
            continue
        sq = squash(item)
        if not any(sq in a for a in alltext):
            ctx.violation("comment_item_contains_code", dict(case, script=text), {"item": item, "inserted": inserted[:6]}, kf=kf)
        ms = re.findall(r"zqx(\d+)", item)
        if ms:
            order.append(int(ms[0]))
    # the comments entry is the script's comments - also when the same parser object is run again (the collector must not accumulate)
    if inserted and case.get("gen") != "kf":
        try:
            from simple_ddl_parser import DDLParser
            p = DDLParser(text, **(ctor or {}))
            first = comments_of(p.run())
            keep = list(first)
            second = comments_of(p.run(group_by_type=False))
            ctx.obs["rerun_comment_checks"] += 1
            if second != keep or first != keep or keep != coms:
                ctx.violation("comments_differ_on_rerun", dict(case, script=text), {"fresh_object": coms[:6], "first_run": keep[:6], "second_run_same_object": second[:8],
                                                                                "first_result_after_second_run": first[:8]}, kf=kf)
        except Exception as e:
            ctx.violation("exception_on_rerun", dict(case, script=text), {"exception": type(e).__name__, "message": str(e)[:200]}, kf=kf)
    if order != sorted(order):
        ctx.violation("comments_out_of_order", dict(case, script=text), {"markers_in_reported_order": order}, kf=kf)


def gen_base(rng):
    lines = []
    for q in range(rng.randint(1, 3)):
        for st in G.gen_group(rng, rng.choice(KINDS), q):
            lines.extend(st.split("\n"))
    return lines


def random_case(rng):
    mk = Marker()
    base = gen_base(rng)
    # (SET lines are assembled by their own rules and are left out)
    inner = rng.random() < INNER_UNTERMINATED_P and not any(re.match(r"\s*(SET)\b", l, re.I) for l in base)
    _NO_SEMI[0] = inner
    _BASE_LINES[0] = base
    try:
        case = _random_case(rng, mk, base)
    finally:
        _NO_SEMI[0] = False
        _BASE_LINES[0] = None
    if inner:
        case["inner_unterminated"] = True
    if rng.random() < 0.25:
        case["ctor"] = {"normalize_names": True}      # the comment scanner may not depend on the naming option
    return case


def _random_case(rng, mk, base):
    out, inserted, styles = [], [], set()
    for i, l in enumerate(base + [None]):
        if rng.random() < 0.35:
            st = rng.choice(["dash", "hash", "block1", "blockml", "blockml_close_inline"])
            ind = rng.choice(["", " ", "    "]) if st in ("dash", "hash", "block1") else ""
            c = make_comment(rng, st, mk, indent=ind)
            out += c
            inserted += c
            styles.add(st + ("_indented" if ind else ""))
        if l is None:
            break
        if rng.random() < (0.5 if _NO_SEMI[0] else 0.25) and l.strip() and "'" not in l.split("--")[0][-1:]:
            st = rng.choice(["tdash", "tblock"])
            tail = trailing(rng, st, mk)
            out.append(l + tail)
            inserted.append(tail)
            styles.add(st)
        else:
            out.append(l)
    case = {"gen": "random", "base": base, "lines": out, "inserted": inserted, "styles": sorted(styles)}
    r = rng.random()
    if r < 0.3:
        case["tail"] = rng.choice(["unterminated", "no_newline", "unterminated_no_newline"])
        if out and out[-1] is not base[-1] and rng.random() < 0.7 and out[-1] == base[-1]:
            pass
    return case


def exhaustive_cases(ctx):
    i = 0
    texts = TEXTS if ctx.tier == "thorough" else TEXTS[:8]
    for bi, base in enumerate(BASES):
        for ti, t in enumerate(texts):
            for st in ["dash", "idash", "hash", "block1", "iblock1", "blockml", "blockml_close_inline"]:
                for pos in range(len(base) + 1):
                    i += 1
                    if not ctx.mine(i):
                        continue
                    rng = ctx.sub_rng("exh", i)
                    mk = Marker()
                    ind = "   " if st.startswith("i") else ""
                    c = make_comment(rng, st.lstrip("i") if st.startswith("i") else st, mk, text=t, indent=ind)
                    yield {"gen": "exhaustive", "base": base, "lines": base[:pos] + c + base[pos:], "inserted": c, "styles": [st]}
                    if pos == len(base):
                        # the comment is the very last thing of the input: with/without final newline, last statement closed by ';' or by EOF
                        for tail in ("unterminated", "no_newline", "unterminated_no_newline"):
                            yield {"gen": "exhaustive", "base": base, "lines": base + c, "inserted": c, "styles": [st, "tail:" + tail], "tail": tail}
            for st in ["tdash", "tblock", "tdash_nested"]:
                for pos in range(len(base)):
                    if st == "tdash_nested":
                        if ti >= len(DASH_TEXTS):
                            continue
                        i += 1
                        if not ctx.mine(i):
                            continue
                        mk = Marker()
                        tail = trailing(ctx.sub_rng("exh", i), "tdash", mk, text=DASH_TEXTS[ti])
                        l2 = list(base)
                        l2[pos] += tail
                        yield {"gen": "exhaustive", "base": base, "lines": l2, "inserted": [tail], "styles": ["tdash_with_inner_dashes"]}
                        continue
                    i += 1
                    if not ctx.mine(i):
                        continue
                    mk = Marker()
                    tail = trailing(ctx.sub_rng("exh", i), st, mk, text=t)
                    l2 = list(base)
                    l2[pos] += tail
                    yield {"gen": "exhaustive", "base": base, "lines": l2, "inserted": [tail], "styles": [st]}


def kf_cases(ctx, n):
    rng = ctx.rng
    for j in range(n):
        base = BASES[j % 2] if j % 3 else gen_base(rng)
        mk = Marker()
        if j % 2 == 0:
            # indented block comment of >= 3 lines (interior lines are parsed as code)
            ind = rng.choice(["  ", "    ", " "])
            m = mk.next()
            n_in = rng.randint(1, 3)
            c = [ind + "/* " + m + " " + rng.choice(TEXTS)] + [ind + "   " + mk.next() + " " + rng.choice(TEXTS) for _ in range(n_in)] + [ind + "*/"]
            pos = rng.randint(0, len(base))
            yield {"gen": "kf", "kf": "C08:indented-multiline-block-comment", "base": base, "lines": base[:pos] + c + base[pos:], "inserted": c, "styles": ["indented_blockml"]}
        else:
            t = rng.choice(NESTED)
            kind = rng.choice(["block1", "tblock", "tdash", "blockml", "dash"])
            if kind in ("tblock", "tdash"):
                if kind == "tdash" and "/*" not in t and "*/" not in t:
                    t = "a /* b"
                tail = trailing(rng, kind, mk, text=t)
                pos = rng.randrange(len(base))
                l2 = list(base)
                l2[pos] += tail
                yield {"gen": "kf", "kf": "C08:comment-marker-inside-comment", "base": base, "lines": l2, "inserted": [tail], "styles": ["nested_" + kind]}
            else:
                if kind == "dash" and "/*" not in t and "*/" not in t:
                    t = "a */ b"
                c = make_comment(rng, kind, mk, text=t)
                pos = rng.randint(0, len(base))
                yield {"gen": "kf", "kf": "C08:comment-marker-inside-comment", "base": base, "lines": base[:pos] + c + base[pos:], "inserted": c, "styles": ["nested_" + kind]}


def run_shard(ctx):
    for case in exhaustive_cases(ctx):
        check_case(ctx, case)
        ctx.obs["exhaustive_cases"] += 1
    rng = ctx.rng
    for j in range(ctx.budget(1200, 40000)):
        case = random_case(rng)
        check_case(ctx, case)
        if j == 0:
            ctx.sample({"script": "\n".join(case["lines"])[:1500]})
    # commented-out copies: a column-0 block comment inside / between statements whose interior lines are character-for-character copies of
    # code lines of the same script (written before or after the comment)
    for j in range(ctx.budget(240, 4000)):
        mk = Marker()
        base = []
        for q in range(rng.randint(2, 3)):
            cols = rng.sample(["id int,", "name varchar(10),", "total int,", "order_id int,", "created_at timestamp,", "note text,"], rng.randint(2, 4))
            cols[-1] = cols[-1].rstrip(",")
            base += ["CREATE TABLE cc%d (" % q] + ["  " + c for c in cols] + [");"]
        code = [l for l in base if l.startswith("  ")]
        copies = rng.sample(code, rng.randint(1, min(3, len(code))))
        if rng.random() < 0.3:
            copies.append(rng.choice([l for l in base if l.startswith("CREATE")]))
        com = ["/* " + mk.next() + " kept for reference"] + copies + ["*/" if rng.random() < 0.6 else "   " + mk.next() + " end */"]
        pos = rng.randint(0, len(base))
        lines = base[:pos] + com + base[pos:]
        check_case(ctx, {"gen": "commented_out_copy", "base": base, "lines": lines, "inserted": com, "styles": ["blockml_copy"]})
        ctx.obs["commented_out_copy_cases"] += 1
    # a comment as the very last line, the input ending right after it, behind every kind of last statement (a SET line included)
    for j in range(ctx.budget(160, 3000)):
        mk = Marker()
        base = []
        for q in range(rng.randint(1, 2)):
            for st in G.gen_group(rng, rng.choice(KINDS), q):
                base.extend(st.split("\n"))
        if j % 2:
            base += rng.choice(["SET search_path = sales;", "SET statement_timeout = 0;", "set hivevar:x=1;"]).split("\n")
        st = rng.choice(["dash", "hash", "block1"])
        c = make_comment(rng, st, mk)
        check_case(ctx, {"gen": "final_comment", "base": base, "lines": base + c, "inserted": c, "styles": [st, "final_line_no_newline"], "final_comment_no_newline": True})
        ctx.obs["final_comment_without_newline_cases"] += 1
    for case in kf_cases(ctx, ctx.budget(80, 800)):
        check_case(ctx, case)
        ctx.obs["known_finding_class_cases"] += 1
