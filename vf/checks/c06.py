"""C06 - identifiers are verbatim; normalize_names only strips outer delimiters.

Oracles: (1) reference model - every generated identifier is looked up at its naming position and
must be found exactly as written (normalize_names=False) or without its one outer delimiter pair
(True); (2) relational - strip(result(False)) == result(True) where strip is identifier-aware (the
delimited spelling of each placed identifier is replaced by the bare one inside every reported
string; every other value must be identical).
"""
import json

from vf import kf as kfmod
from vf.gen.render import LINE_START_WORDS
from vf.run import entities, parse
from vf.util import ddiff, digest, short

LEVEL = "exploration"
WORKERS = {"quick": 8, "thorough": 16}
RULE = ("cases = (a) a 6-statement script (table with inline and table-level references, named PK/UNIQUE/CHECK constraints, "
        "column of a qualified user type; unique index with ASC/DESC; ALTER ADD named FK; sequence; type; domain) whose 17 "
        "identifiers are drawn independently from the classes plain lower / UPPER / Mixed / delimited \"..\" `..` [..] / delimited "
        "keyword / \"with space\", run under both normalize_names settings; (b) every grammar keyword except the 13 the property "
        "excludes as an undelimited column name x 3 spellings x first/middle/last x single-line/multi-line x both settings "
        "(exhaustive); (c) every grammar keyword x 3 spellings as undelimited table, schema, constraint, index, sequence, type, "
        "referenced-table and ALTER-target name (exhaustive; the words that fail on the pinned tree are listed known findings). "
        "Non-trivial = at least one identifier is delimited, mixed-case or keyword-shaped; distinct = distinct (DDL, setting)."
        " Added after seeded defects: keyword-shaped column names re-used in 10 key/reference/index/ALTER list positions, names that merely start with a keyword (every keyword x 4 suffixes x 7 positions), names with # $ @, ARRAY-prefixed names (exact-spelling known findings), normalize_names handed over through parse_from_file, a column renamed by ALTER (old and new name as roles), a project-qualified three-part table name and reference (roles P, T3), 30% of the scripts in the compact layout (nothing after commas), a sort direction on the second key column, a CREATE SCHEMA name (role SC), every third script also in a rotating dialect output mode (names as in the default mode).")
ASSUMPTIONS = ["each identifier is unique within its script (so an identifier-aware textual strip is unambiguous)",
               "an identifier keeps the same spelling everywhere it is used in one script"]
MIN_EVENTS = {"statements": 100, "run_return": 100}

EXCLUDED_COLUMN_WORDS = set("LIKE CONSTRAINT FOREIGN PRIMARY INDEX UNIQUE CHECK WITH CLUSTER BY KEY COLLATE AUTOINCREMENT".split())
DELIMS = {"dq": ('"', '"'), "bt": ("`", "`"), "br": ("[", "]")}
KW_CONTENT = ["Order", "select", "Table", "user", "GROUP", "check", "Default", "index"]


def keywords():
    from simple_ddl_parser import tokens as tok
    return sorted(set(tok.tokens) - {"ID", "DOT", "STRING_BASE", "DQ_STRING", "LP", "RP", "LT", "RT", "COMMAT", "EQ", "COMMA"})


def make_ident(rng, base, classes=None):
    """returns (spelled, bare)"""
    cls = rng.choice(classes or ["lower", "upper", "mixed", "dq", "bt", "br", "dq", "br", "kw_dq", "kw_bt", "kw_br", "space_dq", "underscore", "nested", "digit", "blanks2_dq", "doubled_delim",
                                 "special", "special_delim", "kwprefix", "kwprefix", "long"])
    if cls == "long":           # very long names (the lexer has no length limit)
        name = base + "_" + "".join(rng.choice("abcxyz_019") for _ in range(rng.choice([64, 128, 300])))
        if rng.random() < 0.5:
            a, b = DELIMS[rng.choice(["dq", "bt", "br"])]
            return a + name + b, name
        return name, name
    if cls == "special":        # undelimited name containing # $ @ (allowed by the lexer's identifier class; never at the start: '#' opens a MySQL comment line)
        name = rng.choice([base + "#", "ord#" + base[-3:], base + "$", base[:2] + "@" + base[2:], base + "#1", base[:3] + "#" + base[3:] + "#"])
        return name, name
    if cls == "special_delim":
        a, b = DELIMS[rng.choice(["bt", "br"])]
        name = rng.choice([base + "#", "Item#" + base[-3:], "#" + base, base + "#1"])
        return a + name + b, name
    if cls == "kwprefix":       # a name that merely *starts with / contains* a grammar keyword (collateral, settings, created_at, keys ...)
        kw = rng.choice([k for k in keywords() if k != "ARRAY"])     # upper-case ARRAY* names are a listed defect, enumerated below
        name = rng.choice([kw.lower() + "ral_", kw.lower() + "s_", kw.capitalize() + "_", kw.lower() + "d_at_", kw.upper() + "_", "x_" + kw.lower() + "_"]) + base[-3:]
        return name, name
    if cls == "lower":
        return base.lower(), base.lower()
    if cls == "upper":
        return base.upper(), base.upper()
    if cls == "mixed":
        return base, base
    if cls in DELIMS:
        a, b = DELIMS[cls]
        name = rng.choice([base, base.lower(), base.upper()])
        return a + name + b, name
    if cls.startswith("kw_"):
        a, b = DELIMS[cls[3:]]
        name = rng.choice(KW_CONTENT) + "_" + base[-3:] if rng.random() < 0.5 else rng.choice(KW_CONTENT) + base[-2:]
        return a + name + b, name
    if cls == "underscore":     # delimited, with underscores at the ends: only the delimiters may go
        a, b = DELIMS[rng.choice(["dq", "bt", "br"])]
        name = rng.choice(["_", "__"]) + base + rng.choice(["_", "__", ""])
        return a + name + b, name
    if cls == "nested":         # a second delimiter pair inside the outer one: exactly one pair is stripped
        name = rng.choice(["[%s]", "`%s`"]) % base
        return '"' + name + '"', name
    if cls == "digit":          # delimited name starting with a digit / containing punctuation
        a, b = DELIMS[rng.choice(["dq", "br"])]
        name = rng.choice(["1", "9_", "42"]) + base
        return a + name + b, name
    if cls == "space_dq":
        name = base[:3] + " " + base[3:]
        return '"' + name + '"', name
    if cls == "blanks2_dq":     # two or three blanks in a row inside a double-quoted name
        name = base[:3] + rng.choice(["  ", "   "]) + base[3:]
        return '"' + name + '"', name
    if cls == "doubled_delim":  # the name's own text begins / ends with the delimiter character: still exactly one pair goes
        form = rng.choice(["[[%s]]", "[%s]]]", "[%s]]"])
        name = form % base
        return name, name[1:-1]
    raise ValueError(cls)


ROLES = ["S", "T", "A", "B", "C", "CN", "UQ", "CK", "IX", "FK", "RT", "RC", "RS", "SQ", "TY", "DM", "D", "IK", "E", "F", "P", "T3", "SC"]


def gen_script(rng, classes=None):
    ids = {}
    seen = set()
    for j, role in enumerate(ROLES):
        while True:
            base = "%s%sx%d" % (rng.choice(["My", "Col", "Tab", "Zq", "Nm"]), role.capitalize(), rng.randint(10, 99))
            ident = make_ident(rng, base, classes)
            if role == "SC" and "`" in ident[0]:
                # back quotes in a CREATE SCHEMA name are removed by design (BigQuery paths, pinned by the suite): not a name form of this role
                for _try in range(30):
                    ident = make_ident(rng, base, ["lower", "upper", "mixed", "dq", "br", "underscore", "digit"])
                    if "`" not in ident[0]:
                        break
                else:
                    ident = (base, base)
            if ident[1].lower() not in seen and not any(ident[1].lower() in o or o in ident[1].lower() for o in seen):
                break
        seen.add(ident[1].lower())
        ids[role] = ident
    g = {k: v[0] for k, v in ids.items()}
    ddl = (
        "CREATE TABLE {S}.{T} (\n  {A} int NOT NULL,\n  {B} varchar(10) REFERENCES {RS}.{RT} ({RC})@1,\n  {C} date,\n  {D} {S}.{TY} NOT NULL,\n  {E} int,\n"
        "  CONSTRAINT {CN} PRIMARY KEY ({A}, {B} DESC),\n  CONSTRAINT {UQ} UNIQUE ({B}, {C}, {A}, {D}),\n  CONSTRAINT {CK} CHECK ({A} > 0),\n"
        "  FOREIGN KEY ({C}) REFERENCES {RT} ({RC}) ON DELETE CASCADE@2,\n  KEY {IK} ({B})\n);\n"
        "CREATE UNIQUE INDEX {IX} ON {S}.{T} ({A} ASC, {B} DESC);\n"
        "ALTER TABLE {S}.{T} ADD CONSTRAINT {FK} FOREIGN KEY ({A}) REFERENCES {RS}.{RT} ({RC})@3;\n"
        "ALTER TABLE {S}.{T} RENAME COLUMN {E} TO {F};\n"
        "CREATE SEQUENCE {S}.{SQ} START WITH 5;\n"
        "CREATE TYPE {S}.{TY} AS ENUM ('a', 'b');\n"
        "CREATE DOMAIN {S}.{DM} AS varchar(10);\n"
        "CREATE TABLE {P}.{S}.{T3} ({A} int REFERENCES {P}.{RS}.{RT} ({RC}), {B} int);\n"
        "CREATE SCHEMA {SC};\n"
    ).format(**g)
    # what may follow the referenced column list (the names before it stay what they are)
    for mark in ("@1", "@2", "@3"):
        ddl = ddl.replace(mark, rng.choice(["", "", " DEFERRABLE INITIALLY DEFERRED", " NOT DEFERRABLE", " DEFERRABLE INITIALLY IMMEDIATE"] + ([" ON UPDATE RESTRICT", " ON DELETE CASCADE DEFERRABLE INITIALLY DEFERRED"] if mark != "@2" else [])))
    layout = "spaced"
    if rng.random() < 0.3:
        # the compact layout: nothing after a comma, nothing inside the parentheses of the column list
        ddl = ddl.replace(",\n  ", ",").replace("(\n  ", "(").replace("\n);", ");").replace(", ", ",")
        layout = "compact"
    return {"gen": "positions", "ddl": ddl, "layout": layout, "ids": {k: list(v) for k, v in ids.items()}}


def expected_positions(g):
    """paths -> expected value, given role -> identifier text"""
    ref1 = {"table": g["RT"], "schema": g["RS"], "column": g["RC"]}
    return [
        (("0", "schema"), g["S"]), (("0", "table_name"), g["T"]),
        (("0", "columns", "*name"), [g["A"], g["B"], g["C"], g["D"], g["F"]]),            # the fifth column is renamed by the ALTER below
        (("0", "alter", "renamed_columns", 0, "from"), g["E"]), (("0", "alter", "renamed_columns", 0, "to"), g["F"]),
        (("0", "columns", 1, "references", "table"), g["RT"]), (("0", "columns", 1, "references", "schema"), g["RS"]),
        (("0", "columns", 1, "references", "column"), g["RC"]),
        (("0", "columns", 2, "references", "table"), g["RT"]), (("0", "columns", 2, "references", "column"), g["RC"]),
        (("0", "columns", 3, "type"), g["S"] + "." + g["TY"]),
        (("0", "primary_key"), [g["A"], g["B"]]),
        (("0", "constraints", "primary_keys", 0, "constraint_name"), g["CN"]), (("0", "constraints", "primary_keys", 0, "columns"), [g["A"], g["B"]]),
        (("0", "constraints", "uniques", 0, "constraint_name"), g["UQ"]), (("0", "constraints", "uniques", 0, "columns"), [g["B"], g["C"], g["A"], g["D"]]),
        (("0", "constraints", "checks", 0, "constraint_name"), g["CK"]), (("0", "constraints", "checks", 0, "statement"), g["A"] + " > 0"),
        (("0", "index", 0, "index_name"), g["IK"]), (("0", "index", 0, "columns"), [g["B"]]),          # the inline (mysql style) KEY name (col)
        (("0", "index", 0, "detailed_columns", "*name"), [g["B"]]),
        (("0", "index", 1, "index_name"), g["IX"]), (("0", "index", 1, "columns"), [g["A"], g["B"]]),
        (("0", "index", 1, "detailed_columns", "*name"), [g["A"], g["B"]]),
        (("0", "alter", "columns", 0, "name"), g["A"]), (("0", "alter", "columns", 0, "constraint_name"), g["FK"]),
        (("0", "alter", "columns", 0, "references", "table"), g["RT"]), (("0", "alter", "columns", 0, "references", "schema"), g["RS"]),
        (("0", "alter", "columns", 0, "references", "column"), g["RC"]),
        (("1", "schema"), g["S"]), (("1", "sequence_name"), g["SQ"]),
        (("2", "schema"), g["S"]), (("2", "type_name"), g["TY"]),
        (("3", "schema"), g["S"]), (("3", "domain_name"), g["DM"]),
        # a project-qualified (three-part) table name and reference
        (("4", "schema"), g["S"]), (("4", "table_name"), g["T3"]), (("4", "table_properties", "project"), g["P"]), (("4", "columns", "*name"), [g["A"], g["B"]]),
        (("4", "columns", 0, "references", "project"), g["P"]), (("4", "columns", 0, "references", "schema"), g["RS"]),
        (("4", "columns", 0, "references", "table"), g["RT"]), (("4", "columns", 0, "references", "column"), g["RC"]),
        (("5", "schema_name"), g["SC"]),
    ]


def lookup(res, path):
    cur = res
    for p in path:
        if isinstance(p, str) and p.startswith("*"):
            return [x.get(p[1:]) if isinstance(x, dict) else None for x in cur]
        if isinstance(p, str) and p.isdigit():
            p = int(p)
        if isinstance(cur, dict) and p == "column" and "column" not in cur and isinstance(cur.get("columns"), list) and len(cur["columns"]) == 1:
            cur = cur["columns"][0]   # tolerated convention {"columns":[x]}
            continue
        try:
            cur = cur[p]
        except (KeyError, IndexError, TypeError):
            return "<missing>"
    return cur


def strip_ids(obj, pairs):
    if isinstance(obj, dict):
        return {strip_ids(k, pairs) if isinstance(k, str) else k: strip_ids(v, pairs) for k, v in obj.items()}
    if isinstance(obj, (list, tuple)):
        return [strip_ids(x, pairs) for x in obj]
    if isinstance(obj, str):
        for spelled, bare in pairs:
            if spelled != bare and spelled in obj:
                obj = obj.replace(spelled, bare)
        return obj
    return obj


def check_positions(ctx, case):
    ids = case["ids"]
    results = {}
    for nn in (False, True):
        ctx.evaluated()
        r = parse(case["ddl"], {"normalize_names": nn})
        if r[0] == "exc":
            ctx.violation("exception", dict(case, normalize_names=nn), {"exception": r[1], "message": r[2]})
            return
        ents = entities(r[1])
        results[nn] = ents
        if len(ents) != 6:
            ctx.violation("entity_count", dict(case, normalize_names=nn), {"observed": len(ents), "expected": 6, "kinds": [sorted(e)[:3] for e in ents]})
            return
        g = {k: (v[1] if nn else v[0]) for k, v in ids.items()}
        for path, exp in expected_positions(g):
            got = lookup(ents, path)
            ctx.obs["positions_checked"] += 1
            if got != exp:
                role = "/".join(str(p) for p in path)
                ctx.violation("position:" + "/".join(str(p) for p in path if not str(p).isdigit()), dict(case, normalize_names=nn),
                              {"path": role, "observed": short(got, 200), "expected": exp})
                return
    n = ctx.obs["relational_pairs"]
    if n % 3 == 0:
        # the same names in a dialect output mode: a mode selects fields, it does not re-spell identifiers (both normalize_names settings)
        from vf.checks.c10 import ren
        mode = ["mysql", "postgres", "mssql", "oracle", "hql", "redshift", "snowflake", "spark_sql", "ibm_db2"][(n // 3) % 9]
        for nn in (True, False):
            rm = parse(case["ddl"], {"normalize_names": nn}, output_mode=mode)
            ctx.evaluated()
            ctx.obs["positions_in_dialect_mode"] += 1
            if rm[0] != "ok":
                ctx.violation("exception_in_dialect_mode", dict(case, normalize_names=nn, mode=mode), {"mode": mode, "exception": rm[1], "message": rm[2]})
                break
            em, eb = [ren(e) for e in entities(rm[1])], results[nn]
            if len(em) != len(eb):
                ctx.violation("entity_count", dict(case, normalize_names=nn, mode=mode), {"mode": mode, "observed": len(em), "expected": len(eb)})
                break
            bad = None
            for a, b in zip(em, eb):
                for k in ("table_name", "schema", "primary_key", "sequence_name", "type_name", "domain_name", "schema_name"):
                    if k in b and a.get(k) != b.get(k):
                        bad = (k, a.get(k), b.get(k))
                if "columns" in b and [c.get("name") for c in a.get("columns", [])] != [c.get("name") for c in b["columns"]]:
                    bad = ("columns", [c.get("name") for c in a.get("columns", [])], [c.get("name") for c in b["columns"]])
                if "index" in b and [(i.get("index_name"), i.get("columns")) for i in a.get("index", [])] != [(i.get("index_name"), i.get("columns")) for i in b["index"]]:
                    bad = ("index", a.get("index"), b["index"])
            if bad:
                ctx.violation("names_differ_in_dialect_mode:" + bad[0], dict(case, normalize_names=nn, mode=mode), {"mode": mode, "normalize_names": nn, "field": bad[0], "observed": short(bad[1], 200), "default_mode": short(bad[2], 200)})
                break
    if n % 5 == 0:
        # the same setting handed over through parse_from_file(parser_settings=...) must strip / keep exactly like the constructor flag
        from vf.run import parse_via_file
        for nn in (True, False):
            vf = parse_via_file(case["ddl"], {"normalize_names": nn})
            ctx.evaluated()
            ctx.obs["via_parse_from_file"] += 1
            if vf[0] != "ok" or vf[1] != results[nn]:
                ctx.violation("parse_from_file_ignores_normalize_names", case, {"normalize_names": nn, "via_file": short(vf, 250), "via_constructor": short(results[nn], 250)})
                break
    pairs = sorted(((v[0], v[1]) for v in ids.values()), key=lambda p: -len(p[0]))
    stripped = strip_ids(json.loads(json.dumps(results[False])), pairs)
    d = ddiff(stripped, json.loads(json.dumps(results[True])))
    ctx.obs["relational_pairs"] += 1
    if d:
        ctx.violation("normalize_not_only_strip", case, {"diffs": [(p, short(a, 150), short(b, 150)) for p, a, b in d[:4]]})


KW_POSITIONS = {
    "table": ("CREATE TABLE {w} (a int, b int);", lambda r, w: r[0]["table_name"] == w and [c["name"] for c in r[0]["columns"]] == ["a", "b"]),
    "schema": ("CREATE TABLE {w}.t (a int, b int);", lambda r, w: r[0]["schema"] == w and r[0]["table_name"] == "t" and len(r[0]["columns"]) == 2),
    "table_qualified": ("CREATE TABLE s.{w} (a int, b int);", lambda r, w: r[0]["schema"] == "s" and r[0]["table_name"] == w and len(r[0]["columns"]) == 2),
    "constraint": ("CREATE TABLE t (a int, b int, CONSTRAINT {w} UNIQUE (a, b));", lambda r, w: r[0]["constraints"]["uniques"][0]["constraint_name"] == w and len(r[0]["columns"]) == 2),
    "index": ("CREATE TABLE t (a int);\nCREATE INDEX {w} ON t (a);", lambda r, w: r[0]["index"][0]["index_name"] == w and len(r) == 1),
    "sequence": ("CREATE SEQUENCE {w} START 1;", lambda r, w: r[0]["sequence_name"] == w and r[0]["start"] == 1 and len(r[0]) == 3),
    "ref_table": ("CREATE TABLE t (a int REFERENCES {w} (k), b int);", lambda r, w: r[0]["columns"][0]["references"]["table"] == w and [c["name"] for c in r[0]["columns"]] == ["a", "b"]),
    "type": ("CREATE TYPE {w} AS ENUM ('a');", lambda r, w: r[0]["type_name"] == w and r[0]["properties"]["values"] == ["'a'"]),
    "alter_target": ("CREATE TABLE {w} (a int);\nALTER TABLE {w} ADD b int;", lambda r, w: r[0]["table_name"] == w and [c["name"] for c in r[0]["columns"]] == ["a", "b"]),
    # a keyword-shaped *column* name used again inside a key / reference / index column list (nested parentheses)
    "col_in_pk_list": ("CREATE TABLE t (c0 int, {w} int, c2 int, PRIMARY KEY ({w}, c0));",
                       lambda r, w: r[0]["primary_key"] == [w, "c0"] and [c["name"] for c in r[0]["columns"]] == ["c0", w, "c2"] and len(r) == 1),
    "col_in_named_pk_list": ("CREATE TABLE t (c0 int, {w} int, c2 int, CONSTRAINT pk_t PRIMARY KEY (c0, {w}));",
                             lambda r, w: r[0]["primary_key"] == ["c0", w] and r[0]["constraints"]["primary_keys"][0]["columns"] == ["c0", w] and [c["name"] for c in r[0]["columns"]] == ["c0", w, "c2"]),
    "col_in_unique_list": ("CREATE TABLE t (c0 int, {w} int, c2 int, CONSTRAINT uq_t UNIQUE ({w}, c2));",
                           lambda r, w: r[0]["constraints"]["uniques"][0]["columns"] == [w, "c2"] and [c["name"] for c in r[0]["columns"]] == ["c0", w, "c2"]),
    "col_in_fk_list": ("CREATE TABLE t (c0 int, {w} int, c2 int, FOREIGN KEY ({w}) REFERENCES other (k));",
                       lambda r, w: r[0]["columns"][1]["name"] == w and r[0]["columns"][1]["references"]["table"] == "other" and len(r[0]["columns"]) == 3),
    "ref_column": ("CREATE TABLE t (c0 int REFERENCES other ({w}), c2 int);",
                   lambda r, w: (r[0]["columns"][0]["references"].get("column") == w or r[0]["columns"][0]["references"].get("columns") == [w]) and [c["name"] for c in r[0]["columns"]] == ["c0", "c2"]),
    "col_in_index_list": ("CREATE TABLE t (c0 int, {w} int);\nCREATE INDEX ix_t ON t ({w}, c0);",
                          lambda r, w: r[0]["index"][0]["columns"] == [w, "c0"] and [c["name"] for c in r[0]["columns"]] == ["c0", w] and len(r) == 1),
    "col_in_alter_pk_list": ("CREATE TABLE t (c0 int, {w} int);\nALTER TABLE t ADD CONSTRAINT pk_a PRIMARY KEY ({w}, c0);",
                             lambda r, w: r[0]["alter"]["primary_keys"][0]["columns"] == [w, "c0"] and [c["name"] for c in r[0]["columns"]] == ["c0", w] and len(r) == 1),
    "col_in_alter_unique_list": ("CREATE TABLE t (c0 int, {w} int);\nALTER TABLE t ADD CONSTRAINT uq_a UNIQUE ({w}, c0);",
                                 lambda r, w: r[0]["alter"]["uniques"][0]["columns"] == [w, "c0"] and [c["name"] for c in r[0]["columns"]] == ["c0", w] and len(r) == 1),
    "col_in_alter_drop": ("CREATE TABLE t (c0 int, {w} int);\nALTER TABLE t DROP COLUMN {w};",
                          lambda r, w: [c["name"] for c in r[0]["columns"]] == ["c0"] and len(r) == 1),
}
# positions that re-use a *column* name: the 13 words the property excludes as column names are not placed there
COLUMN_REUSE_POSITIONS = {"col_in_pk_list", "col_in_named_pk_list", "col_in_unique_list", "col_in_fk_list", "ref_column", "col_in_index_list",
                          "col_in_alter_pk_list", "col_in_alter_unique_list", "col_in_alter_drop"}


def spellings(w):
    return [w, w.lower(), w.capitalize()]


def check_kw_position(ctx, case, kf_inputs):
    ctx.evaluated()
    w, pos = case["word"], case["position"]
    ddl = KW_POSITIONS[pos][0].format(w=w)
    ctx.nontrivial_case(digest(ddl))
    r = parse(ddl + "\n")
    good = False
    if r[0] == "ok":
        try:
            good = bool(KW_POSITIONS[pos][1](entities(r[1]), w))
        except Exception:
            good = False
    ctx.obs["kw_position:" + pos] += 1
    if not good:
        key = "C06:keyword-name:" + pos
        # keyword-shaped words are listed case-insensitively; words that merely start with ARRAY only in their exact (upper-case) spelling
        kf = key if (w.upper() in kf_inputs.get(key, ()) or w in kf_inputs.get(key + "#exact", ())) else None
        ctx.violation("keyword_name:" + pos, dict(case, ddl=ddl), {"word": w, "observed": short(r, 300)}, kf=kf)


def check_kw_column(ctx, case):
    w, pos, layout = case["word"], case["pos"], case["layout"]
    cols = ["c0 int", "c1 varchar(5) not null", "c2 date"]
    cols[pos] = "%s int not null" % w
    sep = "\n  " if layout == "multi" else " "
    ddl = "CREATE TABLE s.t (" + sep + ("," + sep).join(cols) + sep.rstrip(" ") + ");\n"
    ctx.nontrivial_case(digest(ddl))
    for nn in (False, True):
        ctx.evaluated()
        r = parse(ddl, {"normalize_names": nn})
        ok = False
        if r[0] == "ok" and len(r[1]) == 1:
            t = r[1][0]
            names = [c.get("name") for c in t.get("columns", [])]
            ok = names == [c.split()[0] for c in cols] and t["columns"][pos]["type"] == "int" and t["columns"][pos]["nullable"] is False \
                and t["columns"][(pos + 1) % 3]["type"] == cols[(pos + 1) % 3].split()[1].split("(")[0]
        ctx.obs["kw_column_checks"] += 1
        if not ok:
            ctx.violation("keyword_column_name", dict(case, ddl=ddl, normalize_names=nn), {"word": w, "observed": short(r, 400)})
            return


def check_k11(ctx, case):
    ctx.evaluated()
    w = case["word"]
    ddl = "CREATE TABLE t (%s int, b int);\n" % w
    ctx.nontrivial_case(digest(ddl + "nn"))
    r = parse(ddl, {"normalize_names": True})
    bare = w[1:-1]
    ok = r[0] == "ok" and len(r[1]) == 1 and [c.get("name") for c in r[1][0].get("columns", [])] == [bare, "b"] and not r[1][0].get("index")
    if not ok:
        ctx.violation("delimited_KEY_column", dict(case, ddl=ddl), {"observed": short(r, 400)},
                      kf="C06:delimited-KEY-column-under-normalize" if bare.upper() == "KEY" else None)


def check_case(ctx, case):
    g = case["gen"]
    if g == "positions":
        if any(v[0] != v[1] or v[0] != v[0].lower() for v in case["ids"].values()):
            ctx.nontrivial_case(digest(case["ddl"]))
        check_positions(ctx, case)
    elif g == "kw_column":
        check_kw_column(ctx, case)
    elif g == "kw_position":
        inputs = {k: set(e.get("inputs", [])) for k, e in kfmod.open_keys("C06").items()}
        inputs.update({k + "#exact": set(e.get("inputs_exact_spelling", [])) for k, e in kfmod.open_keys("C06").items()})
        check_kw_position(ctx, case, inputs)
    elif g == "k11":
        check_k11(ctx, case)


def run_shard(ctx):
    rng = ctx.rng
    kws = keywords()
    ctx.obs["grammar_keywords"] = len(kws) if ctx.shard == 0 else 0
    i = 0
    for w in kws:
        if w in EXCLUDED_COLUMN_WORDS:
            continue
        for sp in spellings(w):
            for pos in (0, 1, 2):
                for layout in ("single", "multi"):
                    if layout == "multi" and w in LINE_START_WORDS:
                        continue   # excluded by C05's proviso: a line must not start with a statement-level word
                    i += 1
                    if ctx.mine(i):
                        check_case(ctx, {"gen": "kw_column", "word": sp, "pos": pos, "layout": layout})
    for w in kws:
        for sp in spellings(w):
            for pos in KW_POSITIONS:
                if pos in COLUMN_REUSE_POSITIONS and w in EXCLUDED_COLUMN_WORDS:
                    continue
                i += 1
                if ctx.mine(i):
                    check_case(ctx, {"gen": "kw_position", "word": sp, "position": pos})
    # names that merely start with a grammar keyword (collateral, keys, created_at, settings ...): enumerated for every keyword
    kwset = set(kws)
    for w in kws:
        for suffix in ("ral", "s", "_id", "d_at"):
            for sp in (w.lower() + suffix, w.capitalize() + suffix):
                if sp.upper() in kwset or sp.upper().startswith("ARRAY"):
                    continue
                i += 1
                if not ctx.mine(i):
                    continue
                check_case(ctx, {"gen": "kw_column", "word": sp, "pos": i % 3, "layout": "multi" if i % 2 else "single"})
                for pos in ("table", "col_in_pk_list", "index", "ref_table", "sequence", "alter_target"):
                    check_case(ctx, {"gen": "kw_position", "word": sp, "position": pos})
                ctx.obs["keyword_prefixed_names"] += 1
    # names that merely start with ARRAY (typed ARRAY by the lexer at some positions: listed by position)
    for sp in ["ARRAY_x", "ARRAYS", "ARRAY1", "Array_x", "array_x", "arrays"]:
        for pos in KW_POSITIONS:
            i += 1
            if ctx.mine(i):
                check_case(ctx, {"gen": "kw_position", "word": sp, "position": pos})
    for w in ['"KEY"', "`KEY`", "[KEY]", '"key"', "[Key]", '"KEYS"', "[INDEX]", '"PRIMARY"', "`unique`"]:
        i += 1
        if ctx.mine(i):
            check_case(ctx, {"gen": "k11", "word": w})
    for j in range(ctx.budget(700, 15000)):
        classes = None
        if j % 5 == 0:
            classes = [rng.choice(["lower", "upper", "mixed", "dq", "bt", "br", "kw_dq", "kw_bt", "kw_br", "space_dq", "underscore", "nested", "digit", "blanks2_dq", "doubled_delim"])]
        case = gen_script(rng, classes)
        check_case(ctx, case)
        if j == 0:
            ctx.sample(case)
