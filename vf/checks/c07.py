"""C07 - string and numeric literals are reported exactly as written.

Oracles: reference model (literal text in -> same text out at its position; digits-only default ->
int of the same value) and a differential guard (the result for literal L, with the literal's own
position overwritten by 'x', must equal the result for the literal 'x': a literal's *content* must
not change any other part of the result).  M-TOK explains: the literal must reach the grammar as
STRING_BASE token(s) whose concatenation is the literal.
"""
import copy
import re

from vf.monitor.hooks import STATE
from vf.run import parse
from vf.util import ddiff, digest, short

LEVEL = "exploration"
WORKERS = {"quick": 8, "thorough": 16}
RULE = ("cases = (literal, position): literals of length 0..40 over the clean alphabet (letters, digits, blanks, _-.:;%$!?/#*&|@~+<>[]{} , "
        "SQL keywords as words, '--', doubled quotes) where any deviation is a violation, and literals with a known-bad feature "
        "(, ( ) = TAB non-ASCII /* */) where a deviation explained by the listed mechanisms is a known finding; 12 literal positions "
        "(column DEFAULT, column COMMENT, table COMMENT hql, table COMMENT = snowflake, inline CHECK comparand, named table CHECK, "
        "CREATE TYPE enum value, mysql ENUM column value, LOCATION, TBLPROPERTIES value, schema COMMENT, ALTER ADD DEFAULT FOR); "
        "numeric defaults of 1..19 digits with leading zeros. Non-trivial = every (literal, position) pair; distinct = distinct pair.")
RULE += (" Added after seeded defects: the respacing known finding is classified by a frozen executable model of the pinned substitutions (anything else on such a literal is a violation), more parenthesis literals, a backslash-escaped quote class (verbatim at the two positions that translate the placeholder back, exact-model known finding elsewhere); words that are or merely contain a grammar keyword (FOR, forever, platform ... over every keyword); BigQuery column/table OPTIONS(description=...) as two more positions; the same texts as double-quoted literals (with ' # ', ' -- ' inside) in every position that reads them; Snowflake string-valued table options (PATTERN, CATALOG, TABLE_FORMAT, FILE_FORMAT TYPE / NULL_IF members) as five more positions; words with '::', '$$' and '; drop ...'; the mode-independent positions are also read in a rotating other output mode.")
RULE += " Wave 10: 3..14 literals on one physical line (ENUM value lists, one-line tables with N DEFAULTs), none / half / all of them holding , ( )."
ASSUMPTIONS = ["no literal contains an unpaired quote or a backslash", "a literal is placed on one line (no TAB/newline directly before it: C05 owns that)"]
MIN_EVENTS = {"statements": 100, "run_return": 100}

CLEAN = "abcdefghijklmnopqrstuvwxyzABCDEFGHIJKLMNOPQRSTUVWXYZ0123456789 _-.:;%$!?/#*&|@~+<>[]{}\""
WORDS = ["My . Files", "a . b", " . ", "x .y", "fe80::1", "app::cache key", "a::b", "::", "queued; drop when done", "open; Create ticket first", "v2; alter nothing here", "x;CREATE y", "paid in $$", "$$", "N", "Y/N", "TYPE N", "E", "X", "B", "U&", "R", "say \"hi\" -- ok", "15\" -- diagonal", "\"quoted\" word", "CREATE", "table", "not null", "--", "select", "Primary Key", "''", "x", "a;b", "DROP TABLE t;", "NULL", "default", "-- c", "check", "key", "in", "As"]
BAD_FEATURES = {
    "comma": [", ", ",", " ,"], "lpar": ["(", " (", "( ", "f(x", "(1"], "rpar": [")", " )", ")x", "1)", ":-)", ") "], "eq": ["=", "a=b", " = "], "tab": ["\t"],
    "nonascii": ["ï", "é", "日本", "ß", "Ж"], "blockopen": ["/*"], "blockclose": ["*/"],
    # one backslash-escaped quote inside the literal (the script then holds an odd number of quote characters)
    "escquote": ["\\'"],
}
KF_OF = {"comma": "C07:separator-respaced-in-literal", "lpar": "C07:separator-respaced-in-literal", "rpar": "C07:separator-respaced-in-literal",
         "eq": "C07:separator-respaced-in-literal", "tab": "C07:separator-respaced-in-literal", "nonascii": "C07:non-ascii-escaped",
         "blockopen": "C07:block-comment-marker-in-literal", "blockclose": "C07:block-comment-marker-in-literal",
         "escquote": "C07:escaped-quote-placeholder-leaks"}
# positions whose values go through check_spec(): there an escaped quote and a TAB-only literal come back verbatim (any deviation is a violation)
RESTORING_POSITIONS = {"colcomment", "tabcomment_hql"}


def _get(r, *path):
    cur = r
    for p in path:
        cur = cur[p]
    return cur


def _set(r, path, v):
    cur = r
    for p in path[:-1]:
        cur = cur[p]
    cur[path[-1]] = v


POS = {
    "default": ("CREATE TABLE t (\n  a varchar(50) DEFAULT {L} NOT NULL,\n  b int\n);", (0, "columns", 0, "default"), "sql", None),
    "colcomment": ("CREATE TABLE t (\n  a int COMMENT {L},\n  b int\n);", (0, "columns", 0, "comment"), "sql", None),
    "tabcomment_hql": ("CREATE TABLE t (\n  a int,\n  b int\n) COMMENT {L};", (0, "comment"), "hql", None),
    "tabcomment_sf": ("CREATE TABLE t (\n  a int\n) COMMENT = {L};", (0, "comment"), "snowflake", None),
    "check": ("CREATE TABLE t (\n  a varchar(9) CHECK (a <> {L}),\n  b int\n);", (0, "columns", 0, "check"), "sql", "a <> "),
    "tcheck": ("CREATE TABLE t (\n  a varchar(9),\n  b int,\n  CONSTRAINT ck CHECK (a <> {L})\n);", (0, "checks", 0, "statement"), "sql", "a <> "),
    "enumtype": ("CREATE TYPE ty AS ENUM ('x', {L}, 'z');", (0, "properties", "values", 1), "sql", None),
    "enumcol": ("CREATE TABLE t (\n  a ENUM('x', {L}) NOT NULL,\n  b int\n);", (0, "columns", 0, "values", 1), "mysql", None),
    "location": ("CREATE TABLE t (\n  a int\n) LOCATION {L};", (0, "location"), "hql", None),
    "tblprop": ("CREATE TABLE t (\n  a int\n) TBLPROPERTIES ('k'={L});", (0, "tblproperties", "'k'"), "hql", None),
    "schemacomment": ("CREATE SCHEMA sc COMMENT = {L};", (0, "comment"), "sql", None),
    "alterdefault": ("CREATE TABLE t (a int, b int);\nALTER TABLE t ADD CONSTRAINT df DEFAULT {L} FOR a;", (0, "columns", 0, "default"), "sql", None),
}
# the column is declared with one default and re-declared with another by a later statement of the script: the later literal is the one reported
POS["modifydefault"] = ("CREATE TABLE t (\n  a varchar(50) DEFAULT 'old one',\n  b int\n);\nALTER TABLE t MODIFY COLUMN a varchar(50) DEFAULT {L};", (0, "columns", 0, "default"), "sql", None)
POS["bq_coloption"] = ("CREATE TABLE p.d.t (\n  a INT64 OPTIONS(description={L}),\n  b INT64\n);", (0, "columns", 0, "options", 0, "description"), "bigquery", None)
POS["bq_taboption"] = ("CREATE TABLE p.d.t (\n  a INT64\n) OPTIONS(description={L});", (0, "options", 0, "description"), "bigquery", None)
# string-valued Snowflake table options
POS["sf_pattern"] = ("CREATE TABLE t (\n  a int\n) PATTERN = {L};", (0, "table_properties", "pattern"), "sql", None)
POS["sf_catalog"] = ("CREATE TABLE t (\n  a int\n) CATALOG = {L};", (0, "table_properties", "catalog"), "snowflake", None)
POS["sf_table_format"] = ("CREATE TABLE t (\n  a int\n) TABLE_FORMAT = {L};", (0, "table_properties", "table_format"), "sql", None)
POS["sf_file_format_type"] = ("CREATE TABLE t (\n  a int\n) STAGE_FILE_FORMAT = (TYPE = {L} NULL_IF = ('NA'));", (0, "table_properties", "stage_file_format", "TYPE"), "sql", None)
POS["sf_null_if"] = ("CREATE TABLE t (\n  a int\n) FILE_FORMAT = (TYPE = CSV NULL_IF = ('NA', {L}));", (0, "table_properties", "file_format", "NULL_IF", 1), "snowflake", None)
# double-quoted literals (BigQuery / MySQL style) are read as literals in every position but these three (calibrated on the pinned tree)
NO_DOUBLE_QUOTED = {"colcomment", "schemacomment", "tabcomment_hql"}
MODE_FREE_POSITIONS = {"default", "colcomment", "check", "tcheck", "enumtype", "schemacomment", "alterdefault", "modifydefault"}
EXTRA_PATHS = {"alterdefault": [(0, "alter", "defaults", 0, "value")]}
_base = {}


def base_result(pos):
    if pos not in _base:
        tmpl, path, mode, prefix = POS[pos]
        _base[pos] = parse(tmpl.format(L="'x'") + "\n", None, output_mode=mode)
    return _base[pos]


def gen_clean(rng):
    n = rng.choice([0, 1, 2, 3, 5, 8, 13, 21, 40, 40, 200, 1000, 5000] if rng.random() < 0.2 else [0, 1, 2, 3, 5, 8, 13, 21, 40])
    s = "".join(rng.choice(CLEAN) for _ in range(n))
    if rng.random() < 0.35:
        s += rng.choice(WORDS)
    if rng.random() < 0.25:
        s = rng.choice(WORDS) + " " + s
    if rng.random() < 0.3:
        s = _kw_word(rng) + (" " + s if rng.random() < 0.5 else "")
    s = s.replace("/*", "/ *").replace("*/", "* /")
    return "'" + s + "'"


_KW = []


def _kw_word(rng):
    """a word that is, or merely contains, the letters of a grammar keyword: FOR, forever, platform, Before ... (every keyword of the grammar)"""
    if not _KW:
        from vf.gen import vocab
        _KW.extend(sorted(k for k in vocab.grammar_keywords() if k.isalpha()))
    k = rng.choice(_KW)
    form = rng.randrange(6)
    if form == 0:
        return k
    if form == 1:
        return k.lower()
    if form == 2:
        return k.capitalize() + " Information"
    if form == 3:
        return "plat" + k.lower() + "m"
    if form == 4:
        return k.lower() + "ever"
    return "be" + k.lower() + "e " + k


def gen_double_quoted(rng):
    """the same texts between double quotes (single quotes inside are doubled so the script's quotes stay paired)"""
    inner = gen_clean(rng)[1:-1].replace('"', "").replace("/*", "/ *").replace("*/", "* /")
    if rng.random() < 0.3:
        inner += rng.choice([" # ", " # 42 in tracker", " -- x", "it''s", "a # b # c", "#", " #"])
    return '"' + inner.replace("/*", "/ *").replace("*/", "* /") + '"'


def gen_bad(rng):
    feat = rng.choice(sorted(BAD_FEATURES))
    a = "".join(rng.choice("abcXYZ019 _") for _ in range(rng.randint(0, 6)))
    b = "".join(rng.choice("abcXYZ019 _") for _ in range(rng.randint(0, 6)))
    return "'" + a + rng.choice(BAD_FEATURES[feat]) + b + "'", feat


def squash(s):
    return re.sub(r"[ \t]+", "", s) if isinstance(s, str) else s


def frozen_respacing(ddl):
    """FROZEN copy of the pinned pre-processor's separator re-spacing (parser.py: equal_without_space in pre_process_line and the
    three 'add space everywhere except strings' substitutions of pre_process_data).  It is the *model of the known defect*
    C07:separator-respaced-in-literal: a deviation is the known finding only if the reported literal is exactly what these
    substitutions make of it; anything else on such a literal (e.g. a ')' that the pinned guard protects coming back
    re-spaced) is an ordinary violation."""
    out = []
    for line in ddl.split("\n"):
        line = re.sub(r"(\b)=", " = ", line)
        qb = r"((?!\'[\w]*[\\']*[\w]*)"
        qa = r"((?![\w]*[\\']*[\w]*\')))"
        for num, (symbol, repl) in enumerate([(r"(,)+", " , "), (r"((\()){1}", " ( "), (r"((\))){1}", " ) ")], 1):
            qau = qa.replace(")))", "))*)") if num == 2 else qa
            line = re.sub(qb + symbol + qau, repl, line)
        out.append(line)
    return "\n".join(out)


def explained(feat, lit, got, ddl=None):
    """does the listed mechanism explain the deviation?"""
    if feat in ("comma", "lpar", "rpar", "eq", "tab"):
        if isinstance(got, str) and feat == "tab":
            got = got.replace("pars_m_t", "")   # the literal '<TAB>' is swapped for a placeholder that only some positions restore
            return squash(got) == squash(lit)
        if not (isinstance(got, str) and squash(got) == squash(lit)):
            return False
        if ddl is None:
            return True
        # exactly the re-spacing of the pinned mechanism (the reported text, without a position prefix, occurs in the model's output)
        core = got[got.index("'"):] if "'" in got else got
        return core in frozen_respacing(ddl)
    if feat == "nonascii":
        if not isinstance(got, str):
            return False
        try:
            esc = lit.encode("unicode_escape").decode("ascii").replace("\\x", "\\0")
        except Exception:
            return False
        return squash(got) == squash(esc)
    if feat == "escquote":
        # the pre-processor swaps \' for the placeholder pars_m_single, which only column / hql table COMMENT translate back
        return isinstance(got, str) and got == lit.replace("\\'", "\\pars_m_single")
    if feat in ("blockopen", "blockclose"):
        return True   # statement lost or DDLParserError (quote left unpaired by comment splitting)
    return False


def token_witness(ddl, mode, lit):
    try:
        STATE.record_tokens = True
        STATE.stmt_tokens = []
        parse(ddl, None, output_mode=mode)
        toks = [t for _s, ts in STATE.stmt_tokens for t in ts]
    finally:
        STATE.record_tokens = False
        STATE.stmt_tokens = []
    strs = [v for ty, v in toks if ty == "STRING_BASE"]
    return {"string_tokens": strs[:6], "literal_is_one_token_run": lit in "".join(strs) or lit in strs}


def check_case(ctx, case):
    if case.get("gen") == "many_literals":
        return many_literals_case(ctx, case)
    ctx.evaluated()
    if case.get("gen") == "word_mode":
        tmpl, path, mode, prefix = POS[case["position"]]
        rm = parse(tmpl.format(L=case["literal"]) + "\n", None, output_mode=case["mode"])
        try:
            gm = _get(rm[1], *path) if rm[0] == "ok" else "<%s>" % rm[1]
        except (KeyError, IndexError, TypeError):
            gm = "<position missing>"
        if gm != (prefix or "") + case["literal"]:
            ctx.violation("literal_changed_in_mode:" + case["position"], case, {"mode": case["mode"], "expected": (prefix or "") + case["literal"], "observed": short(gm, 200)})
        return
    lit, pos, feat = case["literal"], case["position"], case.get("feature")
    tmpl, path, mode, prefix = POS[pos]
    ddl = tmpl.format(L=lit) + "\n"
    ctx.nontrivial_case(digest(lit + "|" + pos))
    ctx.obs["position:" + pos] += 1
    kfkey = KF_OF.get(feat)
    r = parse(ddl, None, output_mode=mode)
    exp = (prefix or "") + lit
    if case.get("numeric"):
        exp = int(lit)
    if r[0] == "exc":
        ctx.violation("exception", dict(case, ddl=ddl), {"exception": r[1], "message": r[2]},
                      kf=kfkey if feat and explained(feat, lit, None) else None)
        return
    try:
        got = _get(r[1], *path)
    except (KeyError, IndexError, TypeError):
        k = kfkey if feat in ("blockopen", "blockclose") else None
        if k is None and pos in ("bq_coloption", "bq_taboption", "sf_file_format_type") and lit[:1] == "'" and "''" in lit[1:-1] and r[1] == []:
            # listed defect: key=value lists read by id_equals (OPTIONS(..), FILE_FORMAT = (..)) take exactly one string token, a doubled quote makes two; only 'statement lost' is listed
            k = "C07:doubled-quote-in-options-literal"
        ctx.violation("literal_position_missing", dict(case, ddl=ddl), {"result": short(r[1], 400)}, kf=k)
        return
    if got != exp or type(got) is not type(exp):
        k = None
        if feat == "escquote" and pos in RESTORING_POSITIONS:
            pass          # must be verbatim here
        elif feat and explained(feat, exp, got, ddl):
            k = kfkey
        elif feat == "eq" and pos == "tblprop" and isinstance(got, str) and squash(got) == squash(lit.split("=")[-1]):
            k = "C07:equals-in-tblproperties-value"
        ctx.violation("literal_changed:" + ("numeric" if case.get("numeric") else pos), dict(case, ddl=ddl),
                      {"expected": exp, "observed": got, "tokens": token_witness(ddl, mode, lit)}, kf=k)
        return
    # the literal is the same in every output mode (positions whose place in the result does not depend on the mode)
    if pos in MODE_FREE_POSITIONS and not case.get("numeric") and not feat:
        n = ctx.obs["mode_rotations"] = ctx.obs["mode_rotations"] + 1
        from vf.run import MODES
        m2 = MODES[n % len(MODES)]
        if m2 != mode:
            rm = parse(ddl, None, output_mode=m2)
            ctx.evaluated()
            try:
                gm = _get(rm[1], *path) if rm[0] == "ok" else "<%s>" % rm[1]
            except (KeyError, IndexError, TypeError):
                gm = "<position missing>"
            if gm != exp:
                ctx.violation("literal_changed_in_mode:" + pos, dict(case, ddl=ddl, mode=m2), {"mode": m2, "expected": exp, "observed": short(gm, 200)})
    # differential guard: nothing but the literal's own position may depend on the literal's content
    if not case.get("numeric"):
        b = base_result(pos)
        if b[0] == "ok":
            mine = copy.deepcopy(r[1])
            _set(mine, path, (prefix or "") + "'x'")
            for ep in EXTRA_PATHS.get(pos, []):
                try:
                    if _get(mine, *ep) != exp:
                        ctx.violation("literal_changed:" + pos, dict(case, ddl=ddl), {"path": list(ep), "expected": exp, "observed": _get(mine, *ep)}, kf=kfkey if feat else None)
                    _set(mine, ep, "'x'")
                except (KeyError, IndexError, TypeError):
                    pass
            d = ddiff(mine, b[1])
            ctx.obs["differential_guards"] += 1
            if d:
                ctx.violation("literal_leaks_elsewhere", dict(case, ddl=ddl), {"diffs": [(p, short(x, 150), short(y, 150)) for p, x, y in d[:4]]},
                              kf=kfkey if feat else None)


def many_literals_case(ctx, case):
    """N literals on ONE physical line (an ENUM value list, a CHECK .. IN list is not modelled, a one-line table with N DEFAULTs): the k-th value
    reported is the k-th literal written - verbatim, or (literals with , ( ) only) exactly what the frozen model of the listed re-spacing defect makes of it"""
    ctx.evaluated()
    lits, shape = case["literals"], case["shape"]
    if shape == "enum":
        ddl = "CREATE TYPE ty AS ENUM (%s);\n" % ", ".join(lits)
        path = lambda r, k: r[0]["properties"]["values"][k]
    elif shape == "enumcol":
        ddl = "CREATE TABLE t (a ENUM(%s) NOT NULL, b int);\n" % ", ".join(lits)
        path = lambda r, k: r[0]["columns"][0]["values"][k]
    else:
        ddl = "CREATE TABLE t (%s);\n" % ", ".join("c%d varchar(40) DEFAULT %s" % (k, l) for k, l in enumerate(lits))
        path = lambda r, k: r[0]["columns"][k]["default"]
    ctx.nontrivial_case(digest(ddl))
    ctx.obs["many_literals_on_one_line:%d" % len(lits)] += 1
    r = parse(ddl, None, output_mode="mysql" if shape == "enumcol" else "sql")
    if r[0] == "exc":
        ctx.violation("many_literals:exception", dict(case, ddl=ddl), {"exception": r[1], "message": r[2]})
        return
    model = frozen_respacing(ddl)
    for k, lit in enumerate(lits):
        try:
            got = path(r[1], k)
        except (KeyError, IndexError, TypeError):
            ctx.violation("many_literals:value_missing", dict(case, ddl=ddl), {"index": k, "literal": lit, "result": short(r[1], 300)})
            return
        if got == lit:
            continue
        bad = any(ch in lit for ch in ",()=")
        kf = None
        if bad and isinstance(got, str) and squash(got) == squash(lit) and got in model:
            kf = "C07:separator-respaced-in-literal"
        ctx.violation("many_literals:value_changed", dict(case, ddl=ddl), {"index": k, "of": len(lits), "expected": lit, "observed": got}, kf=kf)
        if kf is None:
            return


HOSTILE = ["'\"'", "'\"\"'", "''", "' '", "'  two  blanks  '", "'CREATE TABLE x (y int);'".replace("(", "[").replace(")", "]"), "'--'", "'-- not a comment'", "'#'", "'# hash'",
           "'a;b;c'", "';'", "'NOT NULL'", "'DEFAULT'", "'PRIMARY KEY'", "'it''s'", "''''''", "'UPPER lower MiXeD'", "'0'", "'007'", "'1e5'", "'-1'",
           "'a.b.c'", "'[x]'", "'{k: v}'", "'<tag>'", "'a|b&c'", "'50%'", "'$1.00'", "'x@y.z'", "'~'", "'a/b'", "'a * b'", "'?'", "'!'", "'references'", "'ON DELETE CASCADE'"]


def run_shard(ctx):
    rng = ctx.rng
    positions = sorted(POS)
    for j in range(ctx.budget(240, 4000)):
        n = [3, 9, 10, 11, 12, 14, 10, 12][j % 8]
        share = [0.0, 1.0, 0.5][j % 3]          # no / only / half of the literals hold a comma or a parenthesis
        lits = []
        for k in range(n):
            if rng.random() < share:
                lits.append("'v%d%sx'" % (k + 1, rng.choice([",", ", ", "(", ")", " (a) ", ",(", "),"])))
            else:
                lits.append("'%s%d'" % (rng.choice(["v", "val ", "it''s ", "a-b "]), k + 1))
        check_case(ctx, {"gen": "many_literals", "literals": lits, "shape": ["enum", "defaults", "enumcol"][(j // 8) % 3]})
    i = 0
    for lit in HOSTILE:
        for pos in positions:
            i += 1
            if ctx.mine(i):
                check_case(ctx, {"gen": "hostile", "literal": lit, "position": pos})
    # every special word as a whole literal, at every mode-independent position, in every output mode
    from vf.run import MODES
    for lit in ["'" + w.replace("/*", "/ *").replace("*/", "* /") + "'" for w in WORDS if "'" not in w]:
        for pos in sorted(MODE_FREE_POSITIONS):
            for m2 in MODES:
                i += 1
                if not ctx.mine(i):
                    continue
                tmpl, path, mode, prefix = POS[pos]
                exp = (prefix or "") + lit
                rm = parse(tmpl.format(L=lit) + "\n", None, output_mode=m2)
                ctx.evaluated()
                ctx.obs["word_x_position_x_mode"] += 1
                try:
                    gm = _get(rm[1], *path) if rm[0] == "ok" else "<%s>" % rm[1]
                except (KeyError, IndexError, TypeError):
                    gm = "<position missing>"
                if gm != exp:
                    ctx.violation("literal_changed_in_mode:" + pos, {"gen": "word_mode", "literal": lit, "position": pos, "mode": m2, "ddl": tmpl.format(L=lit)},
                                  {"mode": m2, "expected": exp, "observed": short(gm, 200)})
    # ... and every special word as a whole literal at every position, in the position's own mode
    for lit in ["'" + w.replace("/*", "/ *").replace("*/", "* /") + "'" for w in WORDS if "'" not in w]:
        for pos in positions:
            i += 1
            if ctx.mine(i):
                check_case(ctx, {"gen": "word", "literal": lit, "position": pos})
    for j in range(ctx.budget(2500, 90000)):
        lit = gen_clean(rng)
        check_case(ctx, {"gen": "clean", "literal": lit, "position": rng.choice(positions)})
        if j == 0:
            ctx.sample({"literal": lit, "ddl": POS["default"][0].format(L=lit)})
    dq_positions = [p for p in positions if p not in NO_DOUBLE_QUOTED]
    for j in range(ctx.budget(600, 20000)):
        check_case(ctx, {"gen": "double_quoted", "literal": gen_double_quoted(rng), "position": rng.choice(dq_positions)})
        ctx.obs["double_quoted_literals"] += 1
    for j in range(ctx.budget(900, 16000)):
        lit, feat = gen_bad(rng)
        check_case(ctx, {"gen": "known_bad_feature", "literal": lit, "position": rng.choice(positions), "feature": feat})
    # purely numeric defaults -> int of the same value
    for j in range(ctx.budget(300, 4000)):
        nd = rng.randint(1, 19)
        s = "".join(rng.choice("0123456789") for _ in range(nd))
        if rng.random() < 0.2:
            s = "0" * rng.randint(1, 3) + s
        if j < 8:
            s = ["0", "00", "0", "000", "7", "0", "10", "0"][j]        # zero first: the value a truth test takes for "nothing written"
        check_case(ctx, {"gen": "numeric", "literal": s, "position": "modifydefault" if j % 2 else "default", "numeric": True})
