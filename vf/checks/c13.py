"""C13 - group_by_type is a lossless, order-preserving regrouping of the flat result.

Oracle (relational over two executions of the same DDL in the same mode): every entity of the flat
list appears exactly once, unchanged, in the bucket of its kind - the kind is taken from the
*abstract script* (what the generator wrote), not from the code's key map - in the same relative
order; comment texts are gathered under `comments`; six buckets are always present.
"""
import json

import os

from vf.gen import scripts as GS
from vf.gen.corpus import load as load_corpus
from vf.run import MODES, comments_of, entities, parse
from vf.util import canon, digest, short

LEVEL = "exploration"
NEEDS_CORPUS = True
WORKERS = {"quick": 8, "thorough": 16}
RULE = ("cases = (script, mode): seeded random mixes of 1..9 statement groups over all entity kinds (tables incl. dialect tables and "
        "ALTER groups, types, sequences, domains, schemas incl. CLONE, databases incl. CLONE, tablespaces, SET properties) with "
        "comments, every kind adjacent to every other over the run, in all 15 modes; plus the adjacency matrix kind x kind once; plus "
        "corpus scripts (bucket by the flat entity's own shape, since no abstract script exists). Non-trivial = >= 2 entities of >= 2 "
        "kinds; distinct = distinct (script, mode)."
        " Added after seeded defects: SET with empty values, empty-result scripts, blank comment texts, pool scripts, flat/grouped histories on one object in both orders, the grouped call through parse_from_file. the grouped call also with dump=True, dump_path and file_path (same returned dict), SET @variable statements, redefinitions with ALTER/INDEX.")
ASSUMPTIONS = ["for corpus scripts only losslessness/order/mandatory buckets are checked (the expected bucket comes from the entity's own key, which is the code's convention)"]
MIN_EVENTS = {"run_return": 500}
MANDATORY = ["tables", "types", "sequences", "domains", "schemas", "ddl_properties"]
KEY_OF_BUCKET = {"tables": "table_name", "types": "type_name", "sequences": "sequence_name", "domains": "domain_name", "schemas": "schema_name",
                 "tablespaces": "tablespace_name", "databases": "database_name", "ddl_properties": "value"}


def check_case(ctx, case):
    ddl, mode, ctor = case["ddl"], case["mode"], case.get("ctor") or {}
    ctx.evaluated(2)
    f = parse(ddl, ctor, output_mode=mode)
    g = parse(ddl, ctor, output_mode=mode, group_by_type=True)
    if f[0] != "ok":
        if g[0] == "ok":
            ctx.violation("flat_raises_grouped_returns", case, {"flat": f})
        ctx.obs["raises_skipped"] += 1
        return
    if g[0] != "ok":
        ctx.violation("grouped_raises", case, {"exception": g[1], "message": g[2]})
        return
    flat, grouped = f[1], g[1]
    ents = entities(flat)
    ekinds = case.get("entity_kinds")
    if len(ents) >= 2 and (ekinds is None or len(set(ekinds)) >= 2):
        ctx.nontrivial_case(digest(ddl + mode))
    if not isinstance(grouped, dict):
        ctx.violation("grouped_not_dict", case, {"type": type(grouped).__name__})
        return
    for b in MANDATORY:
        if b not in grouped:
            ctx.violation("mandatory_bucket_missing", case, {"bucket": b, "buckets": sorted(grouped)})
    # expected bucket per flat entity
    if ekinds is not None and len(ekinds) == len(ents):
        want = list(ekinds)
    else:
        want = []
        for e in ents:
            b = next((bk for bk, key in KEY_OF_BUCKET.items() if isinstance(e, dict) and key in e), None)
            want.append(b)
        if ekinds is not None:
            ctx.obs["entity_count_differs_from_abstract_script"] += 1
    exp = {}
    for e, b in zip(ents, want):
        exp.setdefault(b, []).append(e)
    ctx.obs["entities_compared"] += len(ents)
    for b, lst in exp.items():
        ctx.obs["bucket:" + str(b)] += len(lst)
        got = grouped.get(b, [])
        if got != lst:
            cg, ce = sorted(canon(x) for x in got), sorted(canon(x) for x in lst)
            if cg == ce:
                kind = "order_changed_in_bucket"
            elif len(got) < len(lst):
                kind = "entity_missing_from_bucket"
            elif len(got) > len(lst):
                kind = "entity_duplicated_or_misplaced"
            else:
                kind = "entity_altered"
            ctx.violation(kind, case, {"bucket": b, "observed": short(got, 300), "expected": short(lst, 300)})
    extra = [b for b in grouped if b not in exp and b != "comments" and grouped[b]]
    if extra:
        ctx.violation("entities_in_unexpected_bucket", case, {"buckets": extra, "content": short({b: grouped[b] for b in extra}, 300)})
    coms = comments_of(flat)
    if coms != grouped.get("comments", []):
        ctx.violation("comments_not_gathered", case, {"flat": coms, "grouped": grouped.get("comments", "<absent>")})
    ctx.obs["comment_texts_compared"] += len(coms)
    # the same two calls on ONE parser object, in both orders, and through the file entry point: still the flat list / its regrouping
    n = ctx.obs["results_pairs"] = ctx.obs["results_pairs"] + 1
    if n % 4 == 0:
        from vf.run import parse_via_file, run_history
        for order in ((False, True), (True, False)):
            h = run_history(ddl, ctor, [dict(output_mode=mode, **({"group_by_type": True} if gbt else {})) for gbt in order])
            ctx.evaluated(2)
            ctx.obs["same_object_histories"] += 1
            for gbt, r in zip(order, h):
                want = g if gbt else f
                if r[0] != "ok" or r[1] != want[1]:
                    ctx.violation("result_depends_on_earlier_call_on_same_object", case, {"call": "run(group_by_type=%s)" % gbt, "order": list(order),
                                                                                           "observed": short(r, 200), "fresh_object": short(want[1], 200)})
                    break
        # asking for a dump (one file for the whole result: file_path given) does not change the grouped result that is returned
        import shutil
        import tempfile
        d = tempfile.mkdtemp(prefix="vf_c13d_")
        try:
            rd = parse(ddl, ctor, output_mode=mode, group_by_type=True, dump=True, dump_path=os.path.join(d, "out"), file_path="model.sql")
            ctx.evaluated()
            ctx.obs["grouped_with_dump"] += 1
            if rd[0] != "ok" or rd[1] != grouped:
                ctx.violation("grouped_result_changes_when_dumped", case, {"observed": short(rd, 250), "without_dump": short(grouped, 250)})
        finally:
            shutil.rmtree(d, ignore_errors=True)
        if "\r" not in ddl:
            vf = parse_via_file(ddl, ctor, output_mode=mode, group_by_type=True)
            ctx.evaluated()
            ctx.obs["via_parse_from_file"] += 1
            if vf[0] != "ok" or vf[1] != grouped:
                ctx.violation("parse_from_file_not_grouped_like_api", case, {"observed": short(vf, 200), "api": short(grouped, 200)})


def run_shard(ctx):
    rng = ctx.rng
    kinds = GS.all_kinds()
    i = 0
    # adjacency matrix over entity kinds (one representative statement kind each) in a seeded mode
    reps = ["core_table", "seq", "type_enum", "domain", "schema", "db", "tspace", "set", "set_empty", "clone_db", "clone_schema", "alter_group", "table_comment", "hql", "drop"]
    # scripts that yield no entity at all: the grouped result must still be the dict with the mandatory buckets
    EMPTY = ["", "\n", "USE warehouse;\n", "USE db;\nGO\nINSERT INTO t VALUES (1);\nGRANT ALL ON t TO joe;\n", "CREATE VIEW v AS SELECT 1;\n", "-- only a comment\n",
             "/* block */\n", "SELECT 1;\nDELETE FROM t;\n", "DROP VIEW v;\n"]
    # ALTER / CREATE INDEX on a table the script does not define (raises on the pinned tree - flat and grouped alike - and is then skipped;
    # if it ever returns, the flat result must still regroup losslessly), and the very same IF NOT EXISTS statement written twice
    EMPTY += ["CREATE TABLE a (x int);\nALTER TABLE nowhere ADD c int;\n", "CREATE TABLE a (x int);\nCREATE INDEX i ON s.nowhere (x);\n",
              "CREATE SEQUENCE q1;\nALTER TABLE t2 ADD CONSTRAINT fk FOREIGN KEY (a) REFERENCES p (k);\nCREATE TABLE z (y int);\n",
              "CREATE SCHEMA IF NOT EXISTS sc1;\nCREATE SCHEMA IF NOT EXISTS sc1;\nCREATE TABLE IF NOT EXISTS t (a int);\nCREATE TABLE IF NOT EXISTS t (a int);\nCREATE SCHEMA sc2;\n",
              "CREATE TABLE IF NOT EXISTS s.t (a int, b int);\nCREATE TABLE IF NOT EXISTS s.t (a int, b int);\n", "CREATE SEQUENCE q START 1;\nCREATE SEQUENCE q START 1;\nCREATE DATABASE d;\nCREATE DATABASE d;\n"]
    for q, ddl in enumerate(EMPTY):
        for mode in MODES:
            i += 1
            if ctx.mine(i):
                check_case(ctx, {"gen": "empty", "ddl": ddl, "mode": mode, "entity_kinds": None})
                ctx.obs["empty_result_scripts"] += 1
    for k1 in reps:
        for k2 in reps:
            i += 1
            if not ctx.mine(i):
                continue
            r = ctx.sub_rng("adj", i)
            stmts = GS.gen_group(r, k1, 0) + GS.gen_group(r, k2, 1) + GS.gen_group(r, k1, 2)
            case = {"gen": "adjacency", "ddl": GS.G.script(stmts), "mode": r.choice(MODES), "entity_kinds": [GS.entity_kind(k1), GS.entity_kind(k2), GS.entity_kind(k1)]}
            check_case(ctx, case)
            ctx.obs_sets["adjacent_kind_pairs"].add(GS.entity_kind(k1) + ">" + GS.entity_kind(k2))
    for j in range(ctx.budget(500, 7000)):
        s = GS.gen_mixed(rng, n=rng.randint(1, 9), with_comments=0.3)
        modes = MODES if ctx.tier == "thorough" else rng.sample(MODES, 4)
        for mode in modes:
            check_case(ctx, {"gen": "mixed", "ddl": s["text"], "mode": mode, "entity_kinds": s["entity_kinds"], "kinds": s["kinds"]})
        if j == 0:
            ctx.sample({"ddl": s["text"][:800], "entity_kinds": s["entity_kinds"]})
    from vf.gen import sources
    for j in range(ctx.budget(200, 4000)):
        src, text = sources.any_script(rng, kinds=["tables", "history", "dialect", "idents", "entities", "sequences", "commented", "types"])
        for mode in (rng.sample(MODES, 2) if ctx.tier == "quick" else rng.sample(MODES, 5)):
            check_case(ctx, {"gen": "pool:" + src, "ddl": text, "mode": mode, "entity_kinds": None})
        ctx.obs["pool_scripts"] += 1
    corp = [c for c in load_corpus() if c["ok"]]
    n = ctx.budget(96, len(corp) + ctx.nshards)
    for j in range(n):
        idx = j * ctx.nshards + ctx.shard
        if ctx.tier == "quick":
            idx = (idx * 13 + ctx.seed) % len(corp)
        if idx >= len(corp):
            break
        c = corp[idx]
        for mode in (MODES if ctx.tier == "thorough" else ["sql", rng.choice(MODES[1:])]):
            check_case(ctx, {"gen": "corpus", "ddl": c["ddl"], "mode": mode, "ctor": c["init_kw"]})
        ctx.obs["corpus_scripts"] += 1
