"""C10 - output_mode only filters presentation; common content is equal in every mode.

Oracle (relational over executions): one DDL run in all 15 modes; entity count/order, every
table's common fields and every non-table entity must equal the default mode's; a mode must not
turn a successful parse into an error; dialect fields at top level only in the modes of a table
*frozen here* from the pinned output/dialects.py + README (not read from the code under test).
"""
import os

from vf.gen import scripts as GS
from vf.gen.corpus import load as load_corpus
from vf.run import MODES, parse
from vf.util import ddiff, digest, short

LEVEL = "exploration"
NEEDS_CORPUS = True
WORKERS = {"quick": 8, "thorough": 16}
RULE = ("cases = (script, mode [, group_by_type, normalize_names]): seeded random mixes of 1..6 statement groups out of %d supported "
        "kinds (core tables, every dialect table, ALTER groups incl. multi-column foreign keys, indexes, types, sequences, domains, "
        "schemas, SET) and every regression-corpus script, each run in all 15 output modes (thorough: x group_by_type x "
        "normalize_names) and compared with the default mode. Non-trivial = the script yields at least one table in default mode; "
        "distinct = distinct (script, flags)."
        " Added after seeded defects: every second script comes from the shared pool of all generators (vf.gen.sources), project-qualified names mixed with two-part references, one parser object asked for a sequence of modes, every 10th script also with dump=True in every mode (same return value).") % len(GS.all_kinds())
ASSUMPTIONS = ["tolerated mode-specific presentation: dataset for schema (bigquery), 'clustered' inside mssql index entries, per-column encode (redshift) / encrypt (oracle) keys wherever a column dict appears",
               "the field -> modes table below is frozen from the pinned tree"]
MIN_EVENTS = {"run_return": 500}

COMMON_TOP = {"table_name", "schema", "dataset", "primary_key", "columns", "alter", "checks", "index", "partitioned_by", "constraints", "tablespace",
              "if_not_exists", "partition_by", "table_properties", "replace", "comment", "like"}
COMMON_COMPARE = ["table_name", "schema", "primary_key", "checks", "index", "alter", "partitioned_by", "constraints", "partition_by", "tablespace",
                  "if_not_exists", "replace", "like"]
COLUMN_COMMON = ["name", "type", "size", "references", "unique", "nullable", "default", "check"]
FIELD_MODES = {
    "sortkey": {"redshift"}, "diststyle": {"redshift"}, "distkey": {"redshift"}, "encode": {"redshift"},
    "engine": {"mysql"}, "default_charset": {"mysql"}, "auto_increment": {"mysql"},
    "project": {"bigquery"},
    "with": {"mssql"}, "clustered_primary_key": {"mssql"}, "on": {"mssql"}, "textimage_on": {"mssql"}, "period_for_system_time": {"mssql"},
    "property_key": {"databricks"},
    "organize_by": {"ibm_db2"}, "index_in": {"ibm_db2"},
    "inherits": {"postgres"},
    "is_global": {"oracle"}, "organization_index": {"oracle"}, "storage": {"oracle"},
    # declared on the HQL class itself: Athena inherits the class but not the mode (observed on the pinned tree: never at top level in athena)
    "skewed_by": {"hql"}, "into_buckets": {"hql"}, "clustered_on": {"hql"},
    "primary_key_enforced": {"snowflake"}, "clone": {"snowflake"}, "with_tag": {"snowflake"},
    "escaped_by": {"athena"},
    "temp": {"hql", "redshift", "oracle", "athena"},
    "tblproperties": {"spark_sql", "hql", "redshift", "athena"},
    "stored_as": {"spark_sql", "hql", "databricks", "redshift", "athena"},
    "row_format": {"spark_sql", "hql", "databricks", "redshift", "athena"},
    "location": {"hql", "spark_sql", "snowflake", "databricks"},
    "fields_terminated_by": {"hql", "databricks", "athena"}, "lines_terminated_by": {"hql", "databricks", "athena"},
    "map_keys_terminated_by": {"hql", "databricks", "athena"}, "collection_items_terminated_by": {"hql", "databricks", "athena"},
    "clustered_by": {"hql", "spark_sql"}, "options": {"bigquery", "spark_sql"},
    "transient": {"hql", "databricks"}, "external": {"hql", "snowflake", "athena"},
    "cluster_by": {"bigquery", "snowflake"},
}


def ren(o):
    if isinstance(o, dict):
        return {("schema" if k == "dataset" else k): ren(v) for k, v in o.items()}
    if isinstance(o, (list, tuple)):
        return [ren(x) for x in o]
    return o


def strip_colkeys(o, keys):
    """remove per-column dialect keys from every column-like dict (has name and type)"""
    if isinstance(o, dict):
        d = {k: strip_colkeys(v, keys) for k, v in o.items()}
        if "name" in d and "type" in d:
            for k in keys:
                d.pop(k, None)
        return d
    if isinstance(o, list):
        return [strip_colkeys(x, keys) for x in o]
    return o


def flatten(res):
    """grouped result -> deterministic flat list (bucket order of the default mode is compared too)"""
    if isinstance(res, dict):
        out = []
        for k in res:
            v = res[k]
            if k == "comments":
                out.append({"comments": v})
            else:
                for e in v:
                    out.append({"__bucket__": k, **e} if isinstance(e, dict) else e)
        return out
    return res


def compare_mode(base, res, mode):
    """violations (kind, detail) of result `res` in `mode` against default-mode result `base` (both flat lists)"""
    out = []
    if len(res) != len(base):
        return [("entity_count", {"mode": mode, "observed": len(res), "default_mode": len(base)})]
    for i, (e, b) in enumerate(zip(res, base)):
        if not isinstance(e, dict) or not isinstance(b, dict):
            if e != b:
                out.append(("entity", {"mode": mode, "index": i}))
            continue
        b = ren(b)
        if "table_name" in b:
            e2 = ren(e)
            colkeys = {"redshift": ["encode"], "oracle": ["encrypt"]}.get(mode, [])
            if colkeys:
                e2 = strip_colkeys(e2, colkeys)
            for k in COMMON_COMPARE:
                ev, bv = e2.get(k, "<absent>"), b.get(k, "<absent>")
                if k == "index" and isinstance(ev, list) and isinstance(bv, list):
                    # 'clustered' inside an index entry is MSSQL presentation (shown for in-table INDEX clauses in every mode)
                    ev = [{kk: vv for kk, vv in ix.items() if kk != "clustered"} if isinstance(ix, dict) else ix for ix in ev]
                    bv = [{kk: vv for kk, vv in ix.items() if kk != "clustered"} if isinstance(ix, dict) else ix for ix in bv]
                if ev != bv:
                    out.append(("common_field:" + k, {"mode": mode, "table": b.get("table_name"), "diffs": [(p, short(x, 120), short(y, 120)) for p, x, y in ddiff(ev, bv)[:3]]}))
            ec, bc = e2.get("columns"), b.get("columns")
            if not isinstance(ec, list) or not isinstance(bc, list) or len(ec) != len(bc):
                out.append(("columns", {"mode": mode, "table": b.get("table_name"), "observed": short(ec, 200), "default_mode": short(bc, 200)}))
            else:
                for c, cb in zip(ec, bc):
                    for ck in COLUMN_COMMON:
                        if c.get(ck, "<absent>") != cb.get(ck, "<absent>"):
                            out.append(("column_attribute:" + ck, {"mode": mode, "table": b.get("table_name"), "column": cb.get("name"),
                                                                   "observed": short(c.get(ck, "<absent>"), 100), "default_mode": short(cb.get(ck, "<absent>"), 100)}))
            for k in e:
                if k in FIELD_MODES:
                    if mode not in FIELD_MODES[k]:
                        out.append(("dialect_field_in_undocumented_mode", {"mode": mode, "field": k, "documented_modes": sorted(FIELD_MODES[k])}))
                elif k not in COMMON_TOP and k != "__bucket__":
                    out.append(("unknown_top_level_field", {"mode": mode, "field": k}))
        else:
            if ren(e) != ren(b):
                out.append(("non_table_entity", {"mode": mode, "diffs": [(p, short(x, 100), short(y, 100)) for p, x, y in ddiff(ren(e), ren(b))[:3]]}))
    return out


def check_case(ctx, case):
    ddl, ctor = case["ddl"], case.get("ctor") or {}
    gbt = bool(case.get("group_by_type"))
    kw = {"group_by_type": True} if gbt else {}
    ctx.evaluated()
    b = parse(ddl, ctor, **kw)
    if b[0] != "ok":
        ctx.obs["default_mode_raises_skipped"] += 1
        return
    base = flatten(b[1])
    if any(isinstance(e, dict) and "table_name" in e for e in base):
        ctx.nontrivial_case(digest(ddl + str(gbt) + str(ctor)))
    modes = case.get("modes") or [m for m in MODES if m != "sql"]
    fresh = {}
    for mode in modes:
        ctx.evaluated()
        r = parse(ddl, ctor, output_mode=mode, **kw)
        fresh[mode] = r
        ctx.obs["mode_runs"] += 1
        if r[0] == "exc":
            ctx.violation("mode_raises", dict(case, modes=[mode]), {"mode": mode, "exception": r[1], "message": r[2]})
            continue
        for kind, detail in compare_mode(base, flatten(r[1]), mode)[:3]:
            ctx.violation(kind, dict(case, modes=[mode]), detail)
    # asking ONE parser object for several modes in a row must give what a fresh object gives for each mode
    n = ctx.obs["cases_seen"] = ctx.obs["cases_seen"] + 1
    if n % 3 == 0 and len(modes) > 2:
        from vf.run import run_history
        seq = ["sql"] + [modes[(n + q * 5) % len(modes)] for q in range(3)] + ["sql"]
        h = run_history(ddl, ctor, [dict(output_mode=m, **kw) for m in seq])
        ctx.evaluated(len(seq))
        ctx.obs["same_object_mode_sequences"] += 1
        for m, r in zip(seq, h):
            want = b if m == "sql" else fresh[m]
            if r[0] != want[0] or (r[0] == "ok" and r[1] != want[1]):
                ctx.violation("mode_result_depends_on_modes_asked_before", dict(case, modes=seq), {"mode": m, "sequence": seq, "observed": short(r, 200), "fresh_object": short(want, 200)})
                break
    # asking for a dump does not change what a mode returns (run(dump=True, dump_path=...) without a file_path, per-table files)
    if n % 10 == 1:
        import shutil
        import tempfile
        d = tempfile.mkdtemp(prefix="vf_c10d_")
        try:
            base_dump = parse(ddl, ctor, dump=True, dump_path=os.path.join(d, "_default"), **kw)
            if base_dump[0] != "ok":
                # run(dump=True) without file_path writes one file per *table* and raises KeyError('table_name') on the pinned tree as soon as
                # the script holds any other entity - in the default mode too, so it is not a mode's doing and no property claims it
                ctx.obs["dump_raises_in_default_mode_skipped"] += 1
                modes_d = []
            else:
                modes_d = list(modes)
            for mode in modes_d:
                want = b if mode == "sql" else fresh.get(mode)
                if want is None or want[0] != "ok":
                    continue
                r = parse(ddl, ctor, output_mode=mode, dump=True, dump_path=os.path.join(d, mode), **kw)
                ctx.evaluated()
                ctx.obs["mode_runs_with_dump"] += 1
                if r[0] != "ok" or r[1] != want[1]:
                    ctx.violation("dump_request_changes_mode_result", dict(case, modes=[mode]), {"mode": mode, "with_dump": short(r, 200), "without": short(want, 200)})
                    break
        finally:
            shutil.rmtree(d, ignore_errors=True)
    # default mode itself must not show dialect fields at top level
    for kind, detail in compare_mode(base, base, "sql")[:2]:
        ctx.violation(kind, dict(case, modes=[]), detail)


def run_shard(ctx):
    rng = ctx.rng
    flagsets = [({}, False)]
    if ctx.tier == "thorough":
        flagsets = [({}, False), ({}, True), ({"normalize_names": True}, False), ({"normalize_names": True}, True)]
    from vf.gen import sources
    for j in range(ctx.budget(200, 5000)):
        if j % 2 == 0:
            s = GS.gen_mixed(rng)
            src, text, kinds = "mixed", s["text"], s["kinds"]
        else:
            src, text = sources.any_script(rng)      # every other generator of the framework as a source of scripts
            kinds = None
        ctx.obs["source:" + src] += 1
        fs_j = flagsets if ctx.tier == "thorough" else [[({}, False)], [({"normalize_names": True}, False)], [({}, True)]][j % 3]
        for ctor, gbt in fs_j:
            check_case(ctx, {"gen": "generated", "source": src, "ddl": text, "ctor": ctor, "group_by_type": gbt, "kinds": kinds})
        if j == 0:
            ctx.sample({"ddl": text[:800], "modes": MODES})
    corp = [c for c in load_corpus() if c["ok"]]
    n = ctx.budget(96, len(corp) + ctx.nshards)
    for j in range(n):
        idx = j * ctx.nshards + ctx.shard
        if ctx.tier == "quick":
            idx = (idx * 7 + ctx.seed) % len(corp)
        if idx >= len(corp):
            break
        c = corp[idx]
        for ctor, gbt in flagsets:
            ct = dict(c["init_kw"])
            ct.update(ctor)
            check_case(ctx, {"gen": "corpus", "ddl": c["ddl"], "ctor": ct, "group_by_type": gbt})
        ctx.obs["corpus_scripts"] += 1
