"""C05 - parsing is invariant under keyword case, white space and line layout.

Oracle (metamorphic, relational over executions): the canonical rendering of a token sequence and
N re-renderings that differ only in the permitted freedoms must give equal results.  M-TOK
gives the sharper witness: the first token where the two token streams diverge.
"""
import re

from vf.gen import schema as S
from vf.gen.corpus import load as load_corpus
from vf.gen.render import I, K, L, N, P, T, comma_list, dotted, finish_script, paren, render
from vf.monitor.hooks import STATE
from vf.run import entities, parse
from vf.util import ddiff, digest, short
from vf.checks import c17

LEVEL = "exploration"
NEEDS_CORPUS = True
WORKERS = {"quick": 8, "thorough": 16}
RULE = ("cases = (script as token lists, layout): generated CREATE TABLE (core + table-level clauses), ALTER TABLE (9 kinds), "
        "CREATE [UNIQUE] INDEX and CREATE SEQUENCE statements, each rendered canonically and in 8 (thorough 10) variant layouts "
        "drawn from: keyword case per keyword (upper/lower/Capitalised/random), separator per gap (1..3 blanks, TAB, none around "
        ", ( )), line breaks at any gap with blank / blank-only lines and indentation, CRLF for all or some line ends; never a "
        "break before a statement-level word (the property's proviso); plus regression-corpus scripts under text-level freedoms "
        "(CRLF, trailing blanks, blank lines). A TAB or line break directly before a quoted literal is generated separately "
        "(known finding; narrowed after the sixth seeded wave to a quote as the first character of a line and to word-glued-to-separator + TAB + quote). Non-trivial = the variant text differs from the canonical text; distinct = distinct variant text.")
RULE += (" Added after seeded defects: tables may also carry AUTO_INCREMENT / AUTOINCREMENT, COLLATE, COMMENT and CHECK column options, sort directions and [NON]CLUSTERED on key clauses, parenthesised and decimal defaults, tricky vocabulary names.")
ASSUMPTIONS = ["the canonical rendering's result is the reference (its content is decided by C01/C02/C04/C17)",
               "values (CASCADE, type names, TRUE) and identifiers are never re-cased by the renderer",
               "layout of unsupported statements is not varied",
               "text-level re-breaking keeps a statement's first keyword and the following word on one line: after a statement WITHOUT ';' the pinned tree recognises the next statement only by a line that starts with 'CREATE ' / 'ALTER ' / 'DROP ' / 'SET ' plus more text (a lone 'CREATE' line is glued to the open statement); terminated scripts rendered from tokens do break there"]
MIN_EVENTS = {"statements": 100, "run_return": 100}

LAYOUTS = [
    ("case_lower", {"case": "lower"}), ("case_cap", {"case": "cap"}), ("case_random", {"case": "random"}),
    ("ws", {"ws": True}), ("nl", {"nl": 0.3, "ws": False}), ("ws_nl", {"ws": True, "nl": 0.2}),
    ("crlf", {"crlf": True}), ("crlf_nl", {"nl": 0.25, "crlf": True, "ws": True}), ("crlf_mixed", {"nl": 0.25, "crlf": "mixed"}),
    ("all", {"case": "random", "ws": True, "nl": 0.2, "crlf": "mixed"}), ("nl_dense", {"nl": 0.7}),
    ("all_lf", {"case": "random", "ws": True, "nl": 0.35}),
]
KF_LAYOUT = ("before_quote", {"ws": True, "nl": 0.5, "break_before_quote": True})


def alter_tokens(rng, ref, cols, k):
    kind = rng.choice(["add", "pk", "uniq", "check", "fk", "default", "drop", "rename", "modify", "index", "uindex"])
    head = K("ALTER TABLE") + ref
    c = rng.choice(cols)
    if kind == "add":
        return head + K("ADD") + I("n%d" % k) + S.type_tokens(rng.choice(S.CORE_TYPES))
    if kind == "pk":
        return head + K("ADD CONSTRAINT") + I("pk%d" % k) + K("PRIMARY KEY") + paren(comma_list([I(x) for x in rng.sample(cols, min(2, len(cols)))]))
    if kind == "uniq":
        return head + K("ADD UNIQUE") + paren(I(c))
    if kind == "check":
        return head + K("ADD CONSTRAINT") + I("ck%d" % k) + K("CHECK") + paren(I(c) + T(">") + N(k))
    if kind == "fk":
        return head + K("ADD CONSTRAINT") + I("fk%d" % k) + K("FOREIGN KEY") + paren(I(c)) + K("REFERENCES") + dotted(rng.choice([None, "zz"]), "p") + paren(I("k")) + (K("ON DELETE") + T("CASCADE") if rng.random() < .5 else [])
    if kind == "default":
        return head + K("ADD CONSTRAINT") + I("df%d" % k) + K("DEFAULT") + N(k + 10) + K("FOR") + I(c)
    if kind == "drop":
        return head + K("DROP COLUMN") + I(c)
    if kind == "rename":
        return head + K("RENAME COLUMN") + I(c) + T("TO") + I("r%d" % k)
    if kind == "modify":
        return head + K("MODIFY COLUMN") + I(c) + T("bigint")
    cs = rng.sample(cols, min(len(cols), rng.randint(1, 2)))
    items = [I(x) + (K(rng.choice(["ASC", "DESC"])) if rng.random() < .5 else []) for x in cs]
    return K("CREATE") + (K("UNIQUE") if kind == "uindex" else []) + K("INDEX") + I("ix%d" % k) + K("ON") + ref + paren(comma_list(items))


def gen_script_tokens(rng):
    """list of token lists (one per statement, each ending with ';')"""
    out = []
    for q in range(rng.randint(1, 3)):
        r = rng.random()
        if r < 0.55:
            # the relational oracle needs no model, so C05 also uses column options the reference model does not know
            kinds = S.CORE_OPT_KINDS + (["autoinc", "collate", "comment", "check"] if rng.random() < 0.4 else [])
            t = S.gen_table(rng, q, max_cols=6, clauses=rng.random() < 0.6, kinds=kinds)
            t["name"] = "lt%d" % q
            out.append(S.table_tokens(t))
            cols = [it["name"] for kind, it in t["items"] if kind == "col"]
            ref = dotted(t.get("schema"), t["name"])
            # only non-destructive followers keep later statements applicable; order is preserved anyway
            for k in range(rng.randint(0, 3)):
                a = alter_tokens(rng, ref, cols, k)
                if any(tok == ("K", "DROP") or tok == ("K", "RENAME") for tok in a):
                    cols = cols  # the parser tolerates statements about dropped/renamed columns; keep list
                out.append(a + P(";"))
        else:
            head, opt_toks, _exp = c17.gen_sequence(rng, tuple(rng.sample(c17.SLOTS, rng.randint(0, 5))), q)
            toks = list(head)
            for o in opt_toks:
                toks += o
            out.append(toks + P(";"))
    return out


def render_script(stmts, layout, rng, raw=None):
    """raw: {statement index: [whole lines written, unchanged in every layout, directly before that statement]} (index len(stmts): at the end)"""
    texts = []
    for i, toks in enumerate(stmts):
        texts += (raw or {}).get(i, [])
        texts.append(render(toks, layout, rng))
    texts += (raw or {}).get(len(stmts), [])
    return finish_script(texts, layout, rng)


# whole lines between the statements under test (never re-laid: C05 names CREATE TABLE / ALTER TABLE / CREATE INDEX / CREATE SEQUENCE): session
# settings as dump tools write them, and one-line statements the parser skips that do not begin with CREATE / ALTER / DROP / SET
RAW_SET = ["SET search_path = public;", "SET statement_timeout = 0;", "SET NOCOUNT ON", "set client_encoding = 'UTF8';"]
RAW_SKIPPED = ["COMMENT ON TABLE x IS 'first';", "ANALYZE t;", "COMMIT;", "EXEC sp_help;", "VACUUM;"]


def gen_raw(rng, n):
    raw = {}
    for i in range(n + 1):
        lines = []
        if i and rng.random() < 0.5:
            lines.append(rng.choice(RAW_SKIPPED))
        if i < n and rng.random() < 0.5:
            lines.append(rng.choice(RAW_SET))
        if lines:
            raw[i] = lines
    return raw


def token_divergence(base_text, var_text):
    """M-TOK witness: first token where the two token streams differ (keywords compared upper-cased)"""
    try:
        STATE.record_tokens = True
        STATE.stmt_tokens = []
        parse(base_text)
        a = [t for _s, toks in STATE.stmt_tokens for t in toks]
        STATE.stmt_tokens = []
        parse(var_text)
        b = [t for _s, toks in STATE.stmt_tokens for t in toks]
    finally:
        STATE.record_tokens = False
        STATE.stmt_tokens = []
    for i, (x, y) in enumerate(zip(a, b)):
        xv = x[1].upper() if x[0] != "ID" and isinstance(x[1], str) else x[1]
        yv = y[1].upper() if y[0] != "ID" and isinstance(y[1], str) else y[1]
        if x[0] != y[0] or xv != yv:
            return {"index": i, "canonical": list(x), "variant": list(y), "previous": [list(t) for t in a[max(0, i - 3):i]]}
    if len(a) != len(b):
        return {"index": min(len(a), len(b)), "canonical_tokens": len(a), "variant_tokens": len(b)}
    return None


def check_case(ctx, case):
    ctx.evaluated()
    base, var = case["base"], case["variant"]
    if base != var:
        ctx.nontrivial_case(digest(var))
    rb = parse(base, case.get("ctor"))
    rv = parse(var, case.get("ctor"))
    ctx.obs["pairs_compared"] += 1
    ctx.obs["layout:" + case["layout_name"]] += 1
    if rb[0] == "exc" and case["gen"] == "corpus":
        ctx.obs["corpus_base_raises_skipped"] += 1
        return
    if rb[0] == "ok" and rv[0] == "ok" and case["gen"] == "corpus":
        # white space added after a comment's text legitimately becomes part of that comment: compare entities
        rb, rv = ("ok", entities(rb[1])), ("ok", entities(rv[1]))
    if rb != rv:
        kf = None
        if case["layout_name"] == "before_quote" and re.search(r"\n'|[,()]\w+[ ]*\t[ ]*'", var):
            kf = "C05:newline-before-quote"
        detail = {"canonical": short(rb, 300), "variant": short(rv, 300)}
        if rb[0] == "ok" and rv[0] == "ok":
            detail = {"diffs": [(p, short(x, 200), short(y, 200)) for p, x, y in ddiff(rb[1], rv[1])[:4]]}
        detail["first_token_divergence"] = token_divergence(base, var)
        kind = "layout:" + case["layout_name"].split("_")[0]
        ctx.violation(kind, case, detail, kf=kf)


TRAIL = ["", " ", "  ", "\t", " \t "]


def corpus_variants(rng, ddl):
    lines = ddl.split("\n")
    yield "crlf", "\r\n".join(lines)
    yield "trailing_blanks", "\n".join(l + rng.choice(TRAIL) for l in lines)
    out = []
    for l in lines:
        out.append(l)
        if rng.random() < 0.3 and "'" not in l:
            out.append(rng.choice(["", " ", "\t"]))
    yield "blank_lines", "\n".join(out)
    yield "crlf_trailing", "\r\n".join(l + rng.choice(TRAIL) for l in lines)


STMT_HEAD = re.compile(r"^(CREATE\s+(OR\s+REPLACE\s+)?((EXTERNAL|TEMPORARY|TRANSIENT|UNIQUE)\s+)*(TABLE|INDEX|SEQUENCE)\b|ALTER\s+TABLE\b)", re.I)
LINE_START = {"CREATE", "ALTER", "DROP", "SET", "GO", "USE", "INSERT", "GRANT", "DELETE"}


def rebreak(text, rng, p=0.3):
    """text-level line breaks: every one-line CREATE TABLE / ALTER TABLE / CREATE INDEX / CREATE SEQUENCE statement of the script may be
    broken at any blank outside quotes (continuation lines indented; never before a statement-level word or directly before a quote)"""
    out = []
    in_block = False          # inside a block comment that runs over several lines: its lines are comment text, whatever they look like
    for line in text.split("\n"):
        if in_block:
            out.append(line)
            if "*/" in line:
                in_block = False
            continue
        if "/*" in line and "*/" not in line.split("/*", 1)[1]:
            in_block = True
        if not STMT_HEAD.match(line) or not line.rstrip().endswith(";") or any(m in line for m in ("--", "/*", "*/", "#")) or line.count("'") % 2 or line.count('"') % 2:
            out.append(line)
            continue
        buf, q = [], None
        first_gap = line.find(" ")          # the statement keyword and the word after it stay on one line (see ASSUMPTIONS)
        for i, ch in enumerate(line):
            if q:
                if ch == q:
                    q = None
                buf.append(ch)
                continue
            if ch in "'\"`":
                q = ch
                buf.append(ch)
                continue
            if ch == " " and i != first_gap and i + 1 < len(line) and line[i + 1] not in " \t'\"`;" and (i == 0 or line[i - 1] not in " \t") and rng.random() < p:
                nxt = re.match(r"\w+", line[i + 1:])
                if not (nxt and nxt.group(0).upper() in LINE_START):
                    buf.append(rng.choice(["\n  ", "\n    ", "\n\t", " \n  "]))
                    continue
            buf.append(ch)
        out.append("".join(buf))
    return "\n".join(out)


def drop_terminators(text, rng, p=0.45):
    """the ';' of one-line statements taken away where the next line starts a statement (CREATE / ALTER / DROP / SET plus more text): such a
    statement is closed by the start of the next one.  Done to the BASE text, so that every re-broken variant has the same statements."""
    lines = text.split("\n")
    out = []
    for i, line in enumerate(lines):
        nxt = lines[i + 1] if i + 1 < len(lines) else ""
        if (STMT_HEAD.match(line) and line.rstrip().endswith(";") and not any(m in line for m in ("--", "/*", "*/", "#")) and not line.count("'") % 2
                and not line.count('"') % 2 and line.count("(") == line.count(")") and re.match(r"(CREATE|ALTER|DROP|SET)[ ]+\S", nxt, re.I) and rng.random() < p):
            line = line.rstrip()[:-1].rstrip()
        out.append(line)
    return "\n".join(out)


def run_shard(ctx):
    rng = ctx.rng
    nvar = 8 if ctx.tier == "quick" else 10
    # statements of every generator of the framework (dialect clauses, options written key=value, literals ...) re-broken at text level
    from vf.gen import scripts as GS
    from vf.gen import sources
    for j in range(ctx.budget(260, 6000)):
        text = GS.gen_mixed(rng)["text"] if j % 2 else sources.any_script(rng)[1]
        if j % 3 == 0:
            t2 = drop_terminators(text, rng)
            if t2 != text:
                text = t2
                ctx.obs["scripts_with_statements_closed_by_the_next_one"] += 1
        for q in range(2):
            var = rebreak(text, rng, p=[0.25, 0.6][q])
            if var != text:
                check_case(ctx, {"gen": "pool", "layout_name": "textnl", "base": text, "variant": var})
                ctx.obs["text_level_rebroken_scripts"] += 1
    for j in range(ctx.budget(450, 4000)):
        stmts = gen_script_tokens(rng)
        raw = gen_raw(rng, len(stmts)) if j % 4 == 3 else None
        if raw:
            ctx.obs["scripts_with_whole_lines_between_statements"] += 1
        base = render_script(stmts, None, rng, raw)
        picks = rng.sample(LAYOUTS, nvar)
        for name, lay in picks:
            var = render_script(stmts, lay, rng, raw)
            check_case(ctx, {"gen": "generated", "layout_name": name, "layout": lay, "base": base, "variant": var})
        if rng.random() < 0.15:
            name, lay = KF_LAYOUT
            var = render_script(stmts, lay, rng)
            if re.search(r"\n'|[,()]\w+[ ]*\t[ ]*'", var):
                check_case(ctx, {"gen": "generated", "layout_name": name, "layout": lay, "base": base, "variant": var})
        if j == 0:
            ctx.sample({"canonical": base[:500], "variant_all": render_script(stmts, dict(LAYOUTS)["all"], rng)[:700]})
    corp = [c for c in load_corpus() if c["ok"]]
    n = ctx.budget(150, len(corp) * 4)
    for j in range(n):
        c = corp[(ctx.shard + j * ctx.nshards) % len(corp)]
        if "\r" in c["ddl"] or any(l.count("'") % 2 or l.count('"') % 2 or l.count("\u2018") != l.count("\u2019") for l in c["ddl"].split("\n")):
            ctx.obs["corpus_scripts_skipped_multiline_literal"] += 1
            continue
        for name, var in corpus_variants(rng, c["ddl"]):
            check_case(ctx, {"gen": "corpus", "layout_name": "corpus_" + name, "base": c["ddl"], "variant": var, "ctor": c["init_kw"]})
        ctx.obs["corpus_scripts"] += 1
