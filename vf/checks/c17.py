"""C17 - CREATE SEQUENCE options are reported with exact values, in any order.

Oracle: reference model (option list -> dict); neighbours (tables whose columns are named like
sequence keywords, other sequences) are compared with their solo results.
"""
import itertools

from vf.gen.render import I, K, N, P, T, dotted, finish_script, render
from vf.run import entities, parse
from vf.util import digest, short

LEVEL = "exploration"
WORKERS = {"quick": 8, "thorough": 16}
RULE = ("cases = scripts with 1..3 CREATE SEQUENCE statements between neighbour tables (columns named increment/start/cache/"
        "minvalue/maxvalue/no/order); options: every permutation of up to 3 (quick) / 5 (thorough) of the six option slots "
        "INCREMENT [BY], START [WITH], MINVALUE n | NO MINVALUE, MAXVALUE n | NO MAXVALUE, CACHE [n], ORDER | NOORDER "
        "(exhaustive over orders, seeded choice of spelling variant and value), then random; values from {0, +-1, +-small, "
        "+-2^31, +-(2^63-1), -2^63, leading '+'}; keyword case random; one option per line or single line. "
        "Non-trivial = at least one option present; distinct = distinct DDL text."
        " Added after seeded defects: verbatim names with dots inside quotes and names spelled like the option keywords behind a schema, scripts with CRLF line ends, statements without ';' closed by the start of the next CREATE statement; wave 9: SET lines as neighbours (directly before / after one-line sequences), names beginning like COLLATE / AUTO_INCREMENT; wave 10: neighbour tables CALLED cache / start / increment / minvalue ... with an index on them.")
ASSUMPTIONS = ["each option appears at most once per sequence", "IF NOT EXISTS on sequences is not named by the property and not generated"]
MIN_EVENTS = {"statements": 50, "run_return": 50}

SLOTS = ["inc", "start", "min", "max", "cache", "order"]
VALUES = [0, 1, -1, 2, 5, 10, -7, 100, 1000, 99999, 2 ** 31, -(2 ** 31), 2 ** 31 - 1, 2 ** 63 - 1, -(2 ** 63), -(2 ** 63 - 1), 123456789012345678]


def gen_value(rng):
    v = rng.choice(VALUES)
    text = str(v)
    if v > 0 and rng.random() < 0.15:
        text = "+" + text
    return text, v


def gen_option(rng, slot):
    """(tokens, key, expected value)"""
    if slot == "inc":
        text, v = gen_value(rng)
        if rng.random() < 0.5:
            return K("INCREMENT BY") + T(text), "increment_by", v
        return K("INCREMENT") + T(text), "increment", v
    if slot == "start":
        text, v = gen_value(rng)
        if rng.random() < 0.5:
            return K("START WITH") + T(text), "start_with", v
        return K("START") + T(text), "start", v
    if slot == "min":
        if rng.random() < 0.35:
            return K("NO MINVALUE"), "minvalue", False
        text, v = gen_value(rng)
        return K("MINVALUE") + T(text), "minvalue", v
    if slot == "max":
        if rng.random() < 0.35:
            return K("NO MAXVALUE"), "maxvalue", False
        text, v = gen_value(rng)
        return K("MAXVALUE") + T(text), "maxvalue", v
    if slot == "cache":
        if rng.random() < 0.4:
            return K("CACHE"), "cache", True
        v = rng.choice([1, 2, 10, 20, 1000, 2 ** 31])
        return K("CACHE") + T(str(v)), "cache", v
    if slot == "order":
        if rng.random() < 0.5:
            return K("ORDER"), "order", True
        return K("NOORDER"), "noorder", True
    raise ValueError(slot)


NAME_FORMS = [(None, "seq1"), ("s", "q"), ("Sch", "My_Seq"), (None, '"Q"'), ('"S"', '"Q2"'), (None, "`bq`"), ("[dbo]", "[sq]"), (None, "SEQ_UP")]
# verbatim names (no index suffix): double-quoted names containing a dot, and - behind a schema - names spelled like the option keywords
EXACT_NAME_FORMS = [(None, '"billing.invoice_no"'), ("dev", '"v1.2_ids"'), ('"tenant.a"', '"seq.main"'), ("dev", "cache"), ("billing", "order"), ("public", "Start"),
                    ("s", "increment"), ("s", "minvalue"), ("s", "no"), ("s", "by"), ("s", "with"), ("s", "noorder"), ("s", "maxvalue"), ("dev", "CACHE"), ("s", "Order"),
                    # names that merely begin like a type keyword
                    (None, "array_ids"), (None, "Array_Position_Seq"), ("arrays", "next_id"), (None, "enum_seq"), (None, "map_ids"), ("structs", "s1"),
                    # characters that are legal in unquoted names of some dialects
                    ("hr", "emp#seq"), (None, "a$b"), ("app#1", "ids"), (None, "seq@x"), (None, "_q"), (None, "q_"),
                    # names that begin like the two words the lexer has rules of their own for
                    ("risk", "collateral_id_seq"), (None, "Collaterals"), ("collateX", "s"), (None, "autoincrement_ids"), (None, "auto_increment_seq"), ("AutoIncrements", "q"), (None, "collate_")]


def gen_sequence(rng, order, idx):
    if rng.random() < 0.15:
        schema, name = rng.choice(EXACT_NAME_FORMS)
    else:
        schema, name = rng.choice(NAME_FORMS)
        name = name if name.endswith(('"', "`", "]")) else name + str(idx)
    opts = [gen_option(rng, s) for s in order]
    head = K("CREATE SEQUENCE") + dotted(schema, name)
    exp = {"schema": schema, "sequence_name": name}
    for toks, key, v in opts:
        exp[key] = v
    return head, [o[0] for o in opts], exp


NEIGHBOURS = [
    "CREATE TABLE nb%d (increment int, start int NOT NULL, cache varchar(5), minvalue int, maxvalue int DEFAULT 3, no int, order int, noorder int);",
    "CREATE TABLE nb%d (a int, cache int, b varchar(10) DEFAULT 'x');",
    "CREATE TABLE s.nb%d (start date, increment decimal(10,2) NOT NULL);",
    "CREATE TABLE nb%d (id int PRIMARY KEY, no int, order int NOT NULL, noorder int);",
    # neighbours that set lexer modes (LIKE, CHECK, ALTER, bracket types): a sequence after them must still be exact
    "CREATE TABLE nb%d LIKE s.other;", "CREATE TABLE nb%d (LIKE src_t);", "CREATE TABLE nb%d (m MAP<STRING, INT>, a int CHECK (a > 0));",
    # a neighbour written over several lines (its parentheses open on the first line and close on a later one)
    "CREATE TABLE nb%d (\n  id int,\n  cache int,\n  start date\n);",
    # SET lines (session settings of psql / pg_dump scripts) directly before and after one-line sequences
    "SET opt%d = 1;", "SET search_path%d = public;",
]
# a table CALLED like an option word, with an index on it (the word stands alone before the first parenthesis of a statement that is not a sequence)
OPTION_WORD_TABLES = ["cache", "start", "increment", "minvalue", "maxvalue", "Cache", "START", "cycle", "order", "noorder"]


def pick_neighbour(rng, n):
    if rng.random() < 0.15:
        w = OPTION_WORD_TABLES[n % len(OPTION_WORD_TABLES)]
        return "CREATE TABLE %s (id int);\nCREATE %sINDEX ix%d ON %s (id);" % (w, rng.choice(["", "UNIQUE "]), n, w)
    return rng.choice(NEIGHBOURS) % n


def render_seq(head, opt_toks, layout, rng):
    case = rng.choice(["upper", "lower", "cap", "random"])
    if layout == "lines":
        lines = [render(head, {"case": case}, rng)]
        for o in opt_toks:
            lines.append("  " + render(o, {"case": case}, rng))
        return "\n".join(lines) + ";"
    if layout == "words":
        # every word of the option list on a line of its own (a signed value then opens a line)
        lines = [render(head, {"case": case}, rng)]
        for o in opt_toks:
            lines += ["  " + w for w in render(o, {"case": case}, rng).split(" ") if w]
        return "\n".join(lines) + ";"
    toks = list(head)
    for o in opt_toks:
        toks += o
    return render(toks + P(";"), {"case": case, "ws": layout == "ws"}, rng)


def build_case(rng, orders, gen):
    stmts, plan = [], []
    n = 0
    for order in orders:
        if rng.random() < 0.5:
            nb = pick_neighbour(rng, n)
            n += 1
            stmts.append(nb)
            plan.append({"kind": "neighbour", "ddl": nb})
        head, opt_toks, exp = gen_sequence(rng, order, n)
        n += 1
        stmts.append(render_seq(head, opt_toks, rng.choice(["single", "lines", "ws", "words"]), rng))
        plan.append({"kind": "sequence", "expected": exp})
    if rng.random() < 0.5:
        nb = pick_neighbour(rng, n)
        stmts.append(nb)
        plan.append({"kind": "neighbour", "ddl": nb})
    # (statements without ';' next to SET lines: a statement closed by a SET line was lost before fix F22)
    has_set = any(st.upper().startswith("SET ") for st in stmts)
    if len(stmts) >= 2 and rng.random() < 0.2 and all(st.lstrip().upper().startswith(("CREATE ", "SET ")) for st in stmts) and not any("LIKE" in st.upper() for st in stmts):      # (SET lines do not start with CREATE)
        stmts = [st[:-1] if st.endswith(";") else st for st in stmts]          # the whole script without ';'
    for q in range(len(stmts) - 1):
        # a statement without ';', closed by the start of the next one (which begins a line with CREATE): nothing of it may be lost
        if rng.random() < 0.15 and stmts[q].endswith(";") and not stmts[q].upper().startswith("SET ") and stmts[q + 1].lstrip().upper().startswith(("CREATE ", "SET ")) and "LIKE" not in stmts[q].upper():
            stmts[q] = stmts[q][:-1]
    ddl = finish_script(stmts)
    if rng.random() < 0.4:
        ddl = ddl.rstrip("\n")                        # the input ends with its last statement (terminated or not), no newline behind it
    if rng.random() < 0.25:
        ddl = ddl.replace("\n", "\r\n")               # the same script with Windows line ends
    return {"gen": gen, "ddl": ddl, "plan": plan}


def check_case(ctx, case):
    ctx.evaluated()
    plan = case["plan"]
    if any(p["kind"] == "sequence" and len(p["expected"]) > 2 for p in plan):
        ctx.nontrivial_case(digest(case["ddl"]))
    r = parse(case["ddl"])
    if r[0] == "exc":
        ctx.violation("exception", case, {"exception": r[1], "message": r[2]})
        return
    ents = entities(r[1])
    if len(ents) != len(plan):
        ctx.violation("entity_count", case, {"observed": len(ents), "expected": len(plan), "result": short(ents, 500)})
        return
    for ent, p in zip(ents, plan):
        if p["kind"] == "sequence":
            exp = p["expected"]
            ctx.obs["sequences_compared"] += 1
            ctx.obs["options_compared"] += len(exp) - 2
            if ent != exp or any(type(ent[k]) is not type(exp[k]) for k in exp):
                keys = sorted(set(ent) ^ set(exp)) if isinstance(ent, dict) else []
                kind = "option_keys" if keys else "option_value"
                if isinstance(ent, dict) and (ent.get("sequence_name") != exp["sequence_name"] or ent.get("schema") != exp["schema"]):
                    kind = "sequence_name"
                ctx.violation(kind, case, {"observed": ent, "expected": exp})
        else:
            solo = parse(p["ddl"] + "\n")
            ctx.obs["neighbours_compared"] += 1
            if solo[0] != "ok" or len(solo[1]) != 1:
                ctx.inconclusive_because("neighbour table does not parse alone: %s" % p["ddl"])
                continue
            if ent != solo[1][0]:
                ctx.violation("neighbour_changed", case, {"observed": short(ent, 400), "solo": short(solo[1][0], 400)})


def run_shard(ctx):
    rng = ctx.rng
    max_len = 3 if ctx.tier == "quick" else 5
    i = 0
    for n in range(0, max_len + 1):
        for order in itertools.permutations(SLOTS, n):
            i += 1
            if not ctx.mine(i):
                continue
            case = build_case(ctx.sub_rng("exh", i), [order], "exhaustive")
            check_case(ctx, case)
            ctx.obs["exhaustive_orders"] += 1
    for j in range(ctx.budget(1500, 30000)):
        orders = []
        for _ in range(rng.randint(1, 3)):
            k = rng.randint(0, 6)
            orders.append(tuple(rng.sample(SLOTS, k)))
        case = build_case(rng, orders, "random")
        check_case(ctx, case)
        if j == 0:
            ctx.sample(case)
