"""C09 - parameterised and nested column types stay whole and leave neighbours intact.

Oracles: reference model for the type string (white space removed) and size; differential
neighbour check (the same table with the type replaced by plain `int` must give identical
*other* columns and identical options on the column itself); hooked-state invariant on the
lexer's angle-bracket depth (lt_open never negative, 0 at the end of every statement).
"""
import copy
import re

from vf.monitor.hooks import STATE
from vf.run import parse
from vf.util import ddiff, digest, short

LEVEL = "exploration"
WORKERS = {"quick": 8, "thorough": 16}
RULE = ("cases = (type expression, column position first/middle/last, following option none/NOT NULL/DEFAULT n/DEFAULT 'x'/COMMENT, "
        "output mode sql/hql/bigquery/spark_sql): sized/array/two-word forms (incl. the product base x size form x array suffix [] [][] [][][] [n] [n][m] ARRAY) ((n) (p,s) (p, s) (max) (n CHAR) (*,s) [] [][] "
        "ARRAY suffix, two-word) and the recursive grammar T ::= leaf | ARRAY<T> | MAP<leaf,T> | STRUCT<f:T,...> (also 'f T', "
        "'f: T') enumerated exhaustively to depth 2 and sampled to depth 3 (quick) / 5 (thorough), every inner comma with/without a "
        "blank, brackets glued or spaced, constructor names upper/lower case. Non-trivial = the type has a size, a suffix, two "
        "words or brackets (all cases); distinct = distinct (DDL, mode)."
        " Added after seeded defects: size x array-suffix product, zero sizes, the type placed inside hive PARTITIONED BY (...) lists, the column under test named with delimiters (\"x\", `x`, [x]), struct field names between back quotes, angle brackets inside the literals after the type, a trailing comment (with '>' or an apostrophe) on the preceding column's line.")
ASSUMPTIONS = ["leaves inside <...> are plain type names (no (n) inside angle brackets)", "type strings are compared after removing white space",
               "calibrated conventions: 'x ARRAY' is reported as 'x[]', 'varchar(10)[]' as type 'varchar[]' size 10, (n CHAR) as size 'n CHAR'"]
MIN_EVENTS = {"statements": 100, "run_return": 100}

LEAVES = ["INT", "STRING", "BIGINT", "DOUBLE", "BOOLEAN", "DATE", "int", "string", "TIMESTAMP", "FLOAT64"]
FIELDS = ["a", "b", "c1", "Name", "f_x", "id"]
SIZED = [
    ("varchar(10)", "varchar", 10), ("VARCHAR(255)", "VARCHAR", 255), ("char(1)", "char", 1), ("decimal(10,2)", "decimal", [10, 2]),
    ("decimal(10, 2)", "decimal", [10, 2]), ("decimal (10,2)", "decimal", [10, 2]), ("numeric(5,0)", "numeric", [5, 0]),
    ("varchar(max)", "varchar", "max"), ("nvarchar(max)", "nvarchar", "max"), ("VARCHAR2(30 CHAR)", "VARCHAR2", "30 CHAR"),
    ("VARCHAR(10 BYTE)", "VARCHAR", "10 BYTE"), ("varchar2(30 char)", "varchar2", "30 char"), ("NUMBER(*,0)", "NUMBER", ["*", 0]), ("NUMBER(*, 2)", "NUMBER", ["*", 2]),
    ("int[]", "int[]", None), ("text[]", "text[]", None), ("int[][]", "int[][]", None), ("varchar(10)[]", "varchar[]", 10),
    ("int ARRAY", "int[]", None), ("double precision", "double precision", None), ("character varying(30)", "character varying", 30),
    ("character varying (30)", "character varying", 30), ("timestamp(6)", "timestamp", 6), ("float(53)", "float", 53), ("bit varying(5)", "bit varying", 5),
]
SIZED += [("time(0)", "time", 0), ("TIMESTAMP(0)", "TIMESTAMP", 0), ("varchar(0)", "varchar", 0), ("character varying( 0 )", "character varying", 0),
          ("numeric(00)", "numeric", 0), ("decimal(0,0)", "decimal", [0, 0]), ("datetime2(0)", "datetime2", 0), ("numeric(10,0)", "numeric", [10, 0])]
# size form x array suffix product (a size followed by one or more dimensions keeps size *and* every dimension)
for _b in ("varchar", "decimal", "character varying", "numeric", "text", "int"):
    for _sz, _szv in (("", None), ("(10)", 10), ("(12,4)", [12, 4]), ("(12, 4)", [12, 4])):
        if _sz and _b in ("text", "int"):
            continue
        for _suf, _sufv in (("[]", "[]"), ("[][]", "[][]"), ("[][][]", "[][][]"), ("[3]", "[3]"), ("[3][4]", "[3][4]"), (" ARRAY", "[]")):
            _t = (_b + _sz + _suf, _b + _sufv, _szv)
            if _t not in SIZED:
                SIZED.append(_t)
OPTIONS = [("", {}), (" NOT NULL", {"nullable": False}), (" DEFAULT 5", {"default": 5}), (" DEFAULT 'x'", {"default": "'x'"}),
           (" COMMENT 'c'", {"comment": "'c'"}), (" NOT NULL COMMENT 'c c'", {"nullable": False, "comment": "'c c'"}),
           # angle brackets inside the literals that follow the type: text, not type syntax
           (" DEFAULT '>'", {"default": "'>'"}), (" NOT NULL DEFAULT 1 COMMENT 'must be > 0'", {"nullable": False, "default": 1, "comment": "'must be > 0'"}),
           (" COMMENT 'a < b'", {"comment": "'a < b'"}), (" DEFAULT '<x>'", {"default": "'<x>'"})]
MODES = ["sql", "hql", "bigquery", "spark_sql"]


def gen_angle(rng, depth, lower=False):
    """abstract nested type: ("leaf", name) | ("array", T) | ("map", leaf, T) | ("struct", [(field, T)...], style)"""
    if depth <= 0 or rng.random() < 0.15:
        return ("leaf", rng.choice(LEAVES))
    k = rng.choice(["array", "map", "struct"])
    if k == "array":
        return ("array", gen_angle(rng, depth - 1))
    if k == "map":
        return ("map", rng.choice(LEAVES), gen_angle(rng, depth - 1))
    n = rng.randint(1, 3)
    fields = rng.sample(FIELDS, n)
    return ("struct", [(f, gen_angle(rng, depth - 1)) for f in fields], rng.choice([":", " ", ": "]))


def enum_angle(depth):
    """exhaustive shapes up to a depth (one leaf name, 1..2 struct fields)"""
    if depth == 0:
        yield ("leaf", "INT")
        return
    for t in enum_angle(depth - 1):
        yield ("array", t)
        yield ("map", "STRING", t)
        yield ("struct", [("a", t)], ":")
        yield ("struct", [("a", ("leaf", "INT")), ("b", t)], ":")
        yield ("struct", [("a", t), ("b", ("leaf", "STRING"))], " ")
    yield ("leaf", "INT")


def render_angle(t, rng, style):
    """style: dict(comma=..., open=..., close=..., lower=bool); rng picks a spelling per comma when style['comma'] is None"""
    def comma():
        return style["comma"] if style["comma"] is not None else rng.choice([",", ", "])

    def name(n):
        return n.lower() if style["lower"] else n
    k = t[0]
    if k == "leaf":
        return t[1]
    if k == "array":
        return name("ARRAY") + style["open"] + render_angle(t[1], rng, style) + style["close"]
    if k == "map":
        return name("MAP") + style["open"] + t[1] + comma() + render_angle(t[2], rng, style) + style["close"]
    q = style.get("field_quote", "")
    parts = [q + f + q + t[2] + render_angle(ft, rng, style) for f, ft in t[1]]
    out = parts[0]
    for p in parts[1:]:
        out += comma() + p
    return name("STRUCT") + style["open"] + out + style["close"]


def depth_of(t):
    if t[0] == "leaf":
        return 0
    if t[0] == "array":
        return 1 + depth_of(t[1])
    if t[0] == "map":
        return 1 + depth_of(t[2])
    return 1 + max(depth_of(ft) for _f, ft in t[1])


STYLES = [
    {"comma": ",", "open": "<", "close": ">", "lower": False}, {"comma": ", ", "open": "<", "close": ">", "lower": False},
    {"comma": None, "open": "<", "close": ">", "lower": False}, {"comma": ", ", "open": "<", "close": ">", "lower": True},
    {"comma": ",", "open": " <", "close": ">", "lower": False}, {"comma": ", ", "open": "< ", "close": " >", "lower": False},
]


def squash(s):
    return re.sub(r"\s+", "", s) if isinstance(s, str) else s


PREFIXES = [None, None, "SELECT a FROM t WHERE x > 2;", "CREATE TABLE pre (q MAP<STRING, ARRAY<INT>>, r int);", "SELECT a FROM t WHERE x < 2;",
            "CREATE TABLE pre2 (q ARRAY<STRUCT<a:INT, b:STRING>>);",
            # earlier statements that switch a lexer / parser mode on outside a column list (DEFAULT, CHECK, LIKE, ALTER, SEQUENCE, INDEX, TYPE) -
            # complete in themselves, or unsupported and skipped
            "CREATE TABLE u (a int AUTO_INCREMENT, b int) ENGINE=InnoDB DEFAULT CHARSET=utf8;", "CREATE TABLE u (id int);\nALTER TABLE u ADD CONSTRAINT df DEFAULT 0 FOR id;",
            "CREATE TABLE u (a int CHECK (a > 0), b int);", "ALTER TABLE orders DROP CHECK chk_amount;", "CREATE TABLE u LIKE s.other;",
            "CREATE SEQUENCE sq START WITH 1 INCREMENT BY 1;", "CREATE TABLE u (a int, b int);\nCREATE INDEX i ON u (a DESC);", "CREATE TYPE ty AS ENUM ('a', 'b');",
            "ALTER TABLE t ALTER COLUMN a DROP DEFAULT;", "ALTER DEFAULT PRIVILEGES IN SCHEMA s REVOKE ALL ON TABLES FROM joe;", "CREATE TABLE u (a int DEFAULT 5, b varchar(3) DEFAULT 'x');"]


# what the column *before* the type under test looks like (lexer flags set by one column live until the statement ends)
NEIGHBOUR_FORMS = {"plain": "c0 int", "generated": "c0 int AS (c2 + 1)", "generated_always": "c0 int GENERATED ALWAYS AS (c2 * 2) STORED",
                   "default_paren": "c0 int DEFAULT (1)", "check": "c0 int CHECK (c0 > 1)"}


NAME_STYLES = {"plain": "x%d", "dq": '"x%d"', "bt": "`x%d`", "br": "[x%d]", "dq_mixed": '"Xy%d"'}


def build(type_text, pos, opt, first="plain", name_style="plain", comment=None):
    cols = [NEIGHBOUR_FORMS.get(first, "c0 int") if pos else "c0 int", "c1 varchar(5) NOT NULL", "c2 date"]
    cols[pos] = "%s %s%s" % (NAME_STYLES[name_style] % pos, type_text, opt)
    if comment and pos and "'" not in cols[0]:
        # a trailing comment on the line of the column BEFORE the type under test (that line holds no literal)
        return "CREATE TABLE s.t (\n  " + cols[0] + ", " + comment + "\n  " + ",\n  ".join(cols[1:]) + "\n);\n"
    return "CREATE TABLE s.t (\n  " + ",\n  ".join(cols) + "\n);\n"


def check_case(ctx, case):
    if case.get("where") == "partition":
        return check_partition_case(ctx, case)
    ctx.evaluated()
    tt, pos, (opt, oexp), mode = case["type_text"], case["pos"], case["option"], case["mode"]
    first = case.get("first", "plain")
    ns = case.get("name_style", "plain")
    ddl = build(tt, pos, opt, first, ns, case.get("comment_before"))
    # listed defect: an inline CHECK earlier in the column list leaves the lexer's check flag set, later < > are not typed as brackets
    kf_check = "C09:angle-type-after-check-column" if (first == "check" and pos and "<" in tt) else None
    ctx.nontrivial_case(digest(ddl + mode))
    nneg, nend = STATE.counters.get("lt_negative", 0), STATE.counters.get("lt_end_nonzero", 0)
    r = parse(ddl, None, output_mode=mode)
    ctx.obs["mode:" + mode] += 1
    ctx.obs["depth:%s" % case.get("depth", "sized")] += 1
    if r[0] == "exc":
        ctx.violation("exception", dict(case, ddl=ddl), {"exception": r[1], "message": r[2]})
        return
    r_ents = [e for e in r[1] if not (isinstance(e, dict) and set(e) == {"comments"})]      # a comment before the type is reported separately
    if len(r_ents) != 1 or "columns" not in r_ents[0]:
        ctx.violation("table_lost", dict(case, ddl=ddl), {"result": short(r[1], 300)}, kf=kf_check)
        return
    cols = r_ents[0]["columns"]
    names = [c.get("name") for c in cols]
    want = ["c0", "c1", "c2"]
    want[pos] = NAME_STYLES[ns] % pos
    if names != want:
        ctx.violation("columns_merged_or_lost", dict(case, ddl=ddl), {"observed": names, "expected": want}, kf=kf_check)
        return
    c = cols[pos]
    et, es = case["exp_type"], case["exp_size"]
    got_t = c.get("type")
    if squash(got_t) != squash(et):
        ctx.violation("type_string", dict(case, ddl=ddl), {"observed": got_t, "expected(no white space)": squash(et)}, kf=kf_check)
        return
    if isinstance(got_t, str) and (got_t.count("<") != got_t.count(">") or got_t.count("(") != got_t.count(")") or got_t.count("[") != got_t.count("]")):
        ctx.violation("unbalanced_type", dict(case, ddl=ddl), {"observed": got_t})
    gs = c.get("size")
    if isinstance(gs, tuple):
        gs = list(gs)
    if gs != es:
        ctx.violation("size", dict(case, ddl=ddl), {"observed": c.get("size"), "expected": es})
    for k, v in {"nullable": True, "default": None, **oexp}.items():
        if c.get(k, None if k == "comment" else "<missing>") != v:
            ctx.violation("option_after_type_lost", dict(case, ddl=ddl), {"option": k, "observed": c.get(k, "<missing>"), "expected": v})
            break
    # differential: the same table with a plain type
    b = parse(build("int", pos, opt, first, ns, case.get("comment_before")), None, output_mode=mode)
    b_ents = [e for e in b[1] if not (isinstance(e, dict) and set(e) == {"comments"})] if b[0] == "ok" else []
    if b[0] == "ok" and len(b_ents) == 1:
        mine, base = r_ents[0], b_ents[0]
        a = [dict(col) for col in mine["columns"]]
        bb = [dict(col) for col in base["columns"]]
        for col in (a[pos], bb[pos]):
            col.pop("type", None)
            col.pop("size", None)
        d = ddiff({**mine, "columns": a}, {**base, "columns": bb})
        ctx.obs["differential_checks"] += 1
        if d:
            ctx.violation("neighbours_differ_from_plain_type", dict(case, ddl=ddl), {"diffs": [(p, short(x, 150), short(y, 150)) for p, x, y in d[:4]]})
    else:
        ctx.inconclusive_because("plain-type baseline does not parse in mode %s" % mode)
    pre = case.get("prefix")
    if pre:
        solo_pre = parse(pre + "\n", None, output_mode=mode)
        rp = parse(pre + "\n" + ddl, None, output_mode=mode)
        ctx.obs["prefixed_scripts"] += 1
        if solo_pre[0] == "ok" and (rp[0] != "ok" or rp[1] != solo_pre[1] + r[1]):
            ctx.violation("depends_on_preceding_statement", dict(case, ddl=pre + "\n" + ddl), {"observed": short(rp, 300), "expected": short(solo_pre[1] + r[1], 300)})
        nneg, nend = STATE.counters.get("lt_negative", 0), STATE.counters.get("lt_end_nonzero", 0)   # comparison operators in the prefix are not type brackets
    if STATE.counters.get("lt_negative", 0) > nneg:
        ctx.violation("lt_open_negative", dict(case, ddl=ddl), {"monitor": "M-TOK", "statements": STATE.lt_negative[-1:]})
    if STATE.counters.get("lt_end_nonzero", 0) > nend:
        ctx.violation("lt_open_nonzero_at_statement_end", dict(case, ddl=ddl), {"monitor": "M-FLAGS", "statements": STATE.lt_end_nonzero[-1:]})


def check_partition_case(ctx, case):
    """the type under test sits in the *second* column list of the statement: hive PARTITIONED BY (name type, ...)"""
    ctx.evaluated()
    tt, pos, mode = case["type_text"], case["pos"], case["mode"]
    com = case.get("comment")

    def mk(type_text):
        pcols = ["p0 int", "p1 varchar(5)", "p2 date"]
        pcols[pos] = "x%d %s%s" % (pos, type_text, " COMMENT 'c c'" if com else "")
        return "CREATE TABLE s.t (c0 int, c1 string) PARTITIONED BY (" + ", ".join(pcols) + ") STORED AS ORC;\n"
    ddl = mk(tt)
    ctx.nontrivial_case(digest(ddl + mode + "part"))
    r = parse(ddl, None, output_mode=mode)
    ctx.obs["partition_list_cases"] += 1
    if r[0] == "exc":
        ctx.violation("exception", dict(case, ddl=ddl), {"exception": r[1], "message": r[2]})
        return
    if len(r[1]) != 1 or "columns" not in r[1][0]:
        ctx.violation("table_lost", dict(case, ddl=ddl), {"result": short(r[1], 300)})
        return
    t = r[1][0]
    pb = t.get("partitioned_by") or []
    want = ["p0", "p1", "p2"]
    want[pos] = "x%d" % pos
    if [c.get("name") for c in pb] != want or [c.get("name") for c in t["columns"]] != ["c0", "c1"]:
        ctx.violation("columns_merged_or_lost", dict(case, ddl=ddl), {"partitioned_by": [c.get("name") for c in pb], "columns": [c.get("name") for c in t["columns"]], "expected": want})
        return
    c = pb[pos]
    if squash(c.get("type")) != squash(case["exp_type"]):
        ctx.violation("type_string", dict(case, ddl=ddl), {"observed": c.get("type"), "expected(no white space)": squash(case["exp_type"]), "where": "partitioned_by"})
        return
    gs = list(c["size"]) if isinstance(c.get("size"), tuple) else c.get("size")
    if gs != case["exp_size"]:
        ctx.violation("size", dict(case, ddl=ddl), {"observed": c.get("size"), "expected": case["exp_size"], "where": "partitioned_by"})
    if com and c.get("comment") != "'c c'":
        ctx.violation("option_after_type_lost", dict(case, ddl=ddl), {"option": "comment", "observed": c.get("comment"), "where": "partitioned_by"})
    b = parse(mk("int"), None, output_mode=mode)
    if b[0] == "ok" and len(b[1]) == 1:
        mine, base = copy.deepcopy(t), copy.deepcopy(b[1][0])
        for tab in (mine, base):
            tab["partitioned_by"][pos].pop("type", None)
            tab["partitioned_by"][pos].pop("size", None)
        d = ddiff(mine, base)
        ctx.obs["differential_checks"] += 1
        if d:
            ctx.violation("neighbours_differ_from_plain_type", dict(case, ddl=ddl), {"diffs": [(q, short(x, 150), short(y, 150)) for q, x, y in d[:4]]})


def angle_case(t, rng, style, pos, option, mode, gen):
    if rng.random() < 0.2:
        style = dict(style, field_quote="`")          # struct field names between back quotes (Hive / BigQuery spelling)
    text = render_angle(t, rng, style)
    return {"gen": gen, "name_style": rng.choice(["plain", "plain", "plain", "dq", "bt", "br", "dq_mixed"]),
            "comment_before": rng.choice([None, None, None, "-- customer's id", "-- code -> label", "-- don't drop", "/* a > b */"]), "type_text": text, "exp_type": text, "exp_size": None, "pos": pos, "option": option, "mode": mode, "depth": depth_of(t),
            "prefix": rng.choice(PREFIXES), "first": rng.choice(["plain", "plain", "generated", "generated_always", "default_paren", "check"])}


def run_shard(ctx):
    rng = ctx.rng
    i = 0
    for text, et, es in SIZED:
        for pos in (0, 1, 2):
            for option in OPTIONS:
                i += 1
                if not ctx.mine(i):
                    continue
                check_case(ctx, {"gen": "sized", "type_text": text, "exp_type": et, "exp_size": es, "pos": pos, "option": option,
                                 "mode": rng.choice(MODES) if ctx.tier == "quick" else MODES[i % 4]})
    for text, et, es in SIZED:
        if "[" in text or "ARRAY" in text:
            continue
        for pos in (0, 1, 2):
            i += 1
            if ctx.mine(i):
                check_case(ctx, {"gen": "sized_partition", "where": "partition", "type_text": text, "exp_type": et, "exp_size": es, "pos": pos,
                                 "mode": MODES[i % 4], "comment": bool(i % 2)})
    shapes = list(enum_angle(2))
    ctx.obs["exhaustive_shapes_depth<=2"] = len(shapes) if ctx.shard == 0 else 0
    for t in shapes:
        for si, style in enumerate(STYLES):
            if ctx.tier == "quick" and si not in (0, 1):
                continue
            i += 1
            if not ctx.mine(i):
                continue
            r = ctx.sub_rng("enum", i)
            ac = angle_case(t, r, style, r.randrange(3), r.choice(OPTIONS), r.choice(MODES), "angle_exhaustive")
            check_case(ctx, ac)
            if si == 0:
                check_case(ctx, dict(ac, where="partition", mode=r.choice(["hql", "sql", "spark_sql"]), comment=r.random() < 0.4))
    maxd = 3 if ctx.tier == "quick" else 5
    for j in range(ctx.budget(1200, 30000)):
        t = gen_angle(rng, rng.randint(1, maxd))
        if t[0] == "leaf":
            continue
        case = angle_case(t, rng, rng.choice(STYLES), rng.randrange(3), rng.choice(OPTIONS), rng.choice(MODES), "angle_random")
        check_case(ctx, case)
        if j % 4 == 0:
            check_case(ctx, dict(case, where="partition", mode=rng.choice(["hql", "sql", "spark_sql"]), comment=rng.random() < 0.4))
        if j < 2:
            ctx.sample({"ddl": build(case["type_text"], case["pos"], case["option"][0]), "mode": case["mode"]})
