"""C16 - unsupported input is skipped silently or raises DDLParserError, as selected.

Oracle (relational over pairs of executions, silent vs loud, + exception-type contract at the
run() boundary): catalogue statements must yield nothing when silent and raise DDLParserError (a
SimpleDDLParserException) when loud, without disturbing their neighbours; where loud returns,
both settings must agree; supported scripts never raise when loud; an unknown output_mode raises
SimpleDDLParserException naming the valid modes.
"""
from vf.gen import scripts as GS
from vf.gen import stmts as G
from vf.gen.corpus import load as load_corpus
from vf.run import MODES, entities
from vf.util import ddiff, digest, short

LEVEL = "exploration"
NEEDS_CORPUS = True
WORKERS = {"quick": 8, "thorough": 16}
RULE = ("cases = (script, silent in {True, False}, mode): supported statement mixes (%d kinds) with 0..3 statements from the "
        "calibrated unsupported catalogue (10 families incl. malformed statements; every catalogue entry alone and between neighbours "
        "exhaustively, then seeded random insertion) in 3 modes; documented ignored lines (GO/USE/INSERT/GRANT/DELETE) which must be "
        "skipped in both settings; corpus scripts for the silent/loud agreement; unknown output_mode strings (near-misses such as "
        "'SQL', 'hql ', 'postgresql', '') . Non-trivial = a script containing at least one unsupported statement or an unknown mode; "
        "distinct = distinct (script, mode)."
        " Added after seeded defects: stray-semicolon family, unterminated ignored lines at every gap, the silent/loud pair through parse_from_file(parser_settings); silent=False combined with debug / normalize_names; valid modes must be named as whole words; supported scripts with comments of every style (C08's generator): loud == silent.") % len(GS.all_kinds())
ASSUMPTIONS = ["'supported' = scripts of the modelled generators; 'unsupported' = the calibrated catalogue (each entry raises when loud and yields [] when silent on the pinned tree)",
               "lines starting with GO / USE / INSERT / GRANT / DELETE are documented as ignored by the pre-processor, so they raise in neither setting"]
MIN_EVENTS = {"run_call": 500}

UNKNOWN_MODES = ["SQL", "Hql", "hql ", " hql", "postgresql", "", "mssql2", "sqlserver", "big_query", "oracle\n", "snow-flake", "athena ", "sql;", "db2", "REDSHIFT", "spark", "json", "none", "MySQL"]


def run(ddl, silent, _ctor=None, **kw):
    """('ok', result) | ('exc', type name, is SimpleDDLParserException, message)"""
    from simple_ddl_parser import DDLParser, SimpleDDLParserException
    try:
        return ("ok", DDLParser(ddl, silent=silent, **(_ctor or {})).run(**kw))
    except Exception as e:
        return ("exc", type(e).__name__, isinstance(e, SimpleDDLParserException), str(e)[:300])


BYSTANDER_DDL = "CREATE TABLE by_t (a int);\nVACUUM FULL by_t now;\nCREATE SEQUENCE by_s START 1;\n"


def run_with_bystander(ddl, silent, **kw):
    from simple_ddl_parser import DDLParser, SimpleDDLParserException
    try:
        p = DDLParser(ddl, silent=silent)
        DDLParser(BYSTANDER_DDL, silent=not silent)
        return ("ok", p.run(**kw))
    except Exception as e:
        return ("exc", type(e).__name__, isinstance(e, SimpleDDLParserException), str(e)[:300])


_solo = {}


def solo(stmts, mode):
    key = (mode, "\n".join(stmts))
    if key not in _solo:
        _solo[key] = run(G.script(stmts), True, output_mode=mode)
    return _solo[key]


def check_mixed(ctx, case):
    groups, inserts, mode = case["groups"], case["inserts"], case["mode"]
    stmts = []
    n_uns = 0
    for gi in range(len(groups) + 1):
        for u in inserts.get(str(gi), []):
            stmts.append(u)
            n_uns += 1
        if gi < len(groups):
            stmts.extend(groups[gi])
    text = G.script(stmts)
    if n_uns:
        ctx.nontrivial_case(digest(text + mode))
    kf = None
    if case.get("feature") == "lexer_error":
        kf = "C16:lexer-error-raises-when-silent"
    elif case.get("feature") == "set_line":
        kf = "C16:set-line-inside-unsupported-statement"
    expected = []
    for g in groups:
        s = solo(g, mode)
        if s[0] != "ok":
            ctx.violation("supported_group_raises_when_silent", dict(case, script=G.script(g)), {"exception": s[1:]})
            return
        expected.extend(entities(s[1]))
    ctx.evaluated(2)
    q = run(text, True, output_mode=mode)
    l = run(text, False, output_mode=mode)
    ctx.obs["silent_loud_pairs"] += 1
    ctx.obs["unsupported_statements_inserted"] += n_uns if not case.get("ignored_only") else 0
    # the same two settings handed over through parse_from_file(parser_settings=...) must behave exactly like the constructor flag
    if case.get("via_file"):
        import os
        import tempfile
        from simple_ddl_parser import parse_from_file
        fd, path = tempfile.mkstemp(suffix=".sql", prefix="vf_c16_")
        try:
            with os.fdopen(fd, "w") as f:
                f.write(text)
            for silent, ref in ((True, q), (False, l)):
                try:
                    fr = ("ok", parse_from_file(path, parser_settings={"silent": silent}, output_mode=mode))
                except Exception as e:
                    fr = ("exc", type(e).__name__)
                ctx.obs["parse_from_file_settings_checks"] += 1
                same = (fr[0] == ref[0] == "ok" and fr[1] == ref[1]) or (fr[0] == ref[0] == "exc" and fr[1] == ref[1])
                if not same:
                    ctx.violation("parse_from_file_ignores_silent_setting", dict(case, script=text), {"silent": silent, "via_file": short(fr, 200), "via_constructor": short(ref[:2], 200)})
        finally:
            try:
                os.remove(path)
            except OSError:
                pass
    # silent: no exception, no entity from the unsupported statements, neighbours untouched
    if q[0] != "ok":
        ctx.violation("silent_raises", dict(case, script=text), {"exception": q[1], "message": q[3]}, kf=kf if case.get("feature") == "lexer_error" else None)
    elif entities(q[1]) != expected:
        got = entities(q[1])
        k = None
        if case.get("feature") == "set_line":
            extra = [e for e in got if e not in expected]
            if extra and all(isinstance(e, dict) and set(e) == {"name", "value"} for e in extra) and [e for e in got if e in expected] == expected:
                k = kf
        ctx.violation("silent_not_skipped_cleanly", dict(case, script=text), {"diffs": [(p, short(x, 120), short(y, 120)) for p, x, y in ddiff(got, expected)[:4]]}, kf=k)
    # silent=False together with the other constructor flags is still silent=False
    if ctx.obs["silent_loud_pairs"] % 4 == 0:
        for extra in ({"debug": True}, {"normalize_names": True}, {"debug": True, "normalize_names": True}):
            lx = run(text, False, extra, output_mode=mode)
            ctx.evaluated()
            ctx.obs["loud_with_other_flags"] += 1
            same = lx[:3] == l[:3] if l[0] == "exc" else (lx[0] == "ok" and ("normalize_names" in extra or lx[1] == l[1]))
            if not same:
                ctx.violation("loud_setting_depends_on_other_flags", dict(case, script=text, ctor=dict(extra, silent=False)),
                              {"flags": dict(extra, silent=False), "observed": short(lx[:2], 200), "silent_False_alone": short(l[:2], 200)})
                break
    # the setting selected for THIS object decides, whatever other objects are alive: an object with the opposite setting (another script,
    # never run) is constructed between this object's construction and its run()
    if ctx.obs["silent_loud_pairs"] % 3 == 0:
        for sil, alone in ((False, l), (True, q)):
            by = run_with_bystander(text, sil, output_mode=mode)
            ctx.evaluated()
            ctx.obs["runs_with_an_opposite_setting_object_alive"] += 1
            if by[:3] != alone[:3] if alone[0] == "exc" else by != alone:
                ctx.violation("setting_of_another_object_decides", dict(case, script=text, bystander=True, silent=sil),
                              {"silent": sil, "observed": short(by[:4], 200), "alone": short(alone[:4], 200)})
                break
    # loud
    must_raise = n_uns > 0 and not case.get("ignored_only")
    if must_raise:
        if l[0] == "ok":
            ctx.violation("loud_does_not_raise", dict(case, script=text), {"returned": short(l[1], 300)})
        elif not (l[1] == "DDLParserError" and l[2]):
            ctx.violation("loud_raises_wrong_type", dict(case, script=text), {"exception": l[1], "is_SimpleDDLParserException": l[2], "message": l[3]})
    else:
        if l[0] != "ok":
            ctx.violation("supported_script_raises_when_loud", dict(case, script=text), {"exception": l[1], "message": l[3]})
        elif q[0] == "ok" and l[1] != q[1]:
            ctx.violation("loud_differs_from_silent", dict(case, script=text), {"diffs": [(p, short(x, 120), short(y, 120)) for p, x, y in ddiff(l[1], q[1])[:4]]})


def check_corpus(ctx, case):
    ctx.evaluated(2)
    kw = dict(case.get("run_kw") or {})
    q = run(case["ddl"], True, **kw)
    l = run(case["ddl"], False, **kw)
    ctx.obs["corpus_pairs"] += 1
    if l[0] == "ok":
        if q[0] != "ok" or q[1] != l[1]:
            ctx.violation("loud_differs_from_silent", case, {"silent": short(q, 300), "loud": short(l, 300)})
    elif l[1] != "DDLParserError" or not l[2]:
        # the corpus contains scripts that are not fully supported; if loud raises it must be the library's error
        ctx.obs["corpus_loud_raises_other:" + l[1]] += 1
    else:
        ctx.obs["corpus_loud_raises_DDLParserError"] += 1


def check_unknown_mode(ctx, case):
    ctx.evaluated()
    ctx.nontrivial_case(digest("mode|" + repr(case["mode"]) + case["ddl"]))
    r = run(case["ddl"], case.get("silent", True), output_mode=case["mode"])
    ctx.obs["unknown_mode_checks"] += 1
    if r[0] == "ok":
        ctx.violation("unknown_mode_accepted", case, {"mode": case["mode"], "returned": short(r[1], 200)})
    elif not r[2]:
        ctx.violation("unknown_mode_wrong_exception", case, {"mode": case["mode"], "exception": r[1], "message": r[3]})
    else:
        import re
        named = set(re.findall(r"\w+", r[3]))          # whole words: 'sql' is not named by 'mysql'
        missing = [m for m in MODES if m not in named]
        if missing:
            ctx.violation("unknown_mode_message_lacks_modes", case, {"mode": case["mode"], "message": r[3], "not_named": missing})


def check_case(ctx, case):
    g = case["gen"]
    if g == "corpus":
        check_corpus(ctx, case)
    elif g == "unknown_mode":
        check_unknown_mode(ctx, case)
    elif g == "commented":
        check_commented(ctx, case)
    else:
        check_mixed(ctx, case)


def check_commented(ctx, case):
    """supported statements with comments of every style around and inside them: comments are not statements, so silent=False must return
    exactly what silent=True returns"""
    ctx.evaluated(2)
    base, text = case["base_text"], case["ddl"]
    lb = run(base, False)
    if lb[0] != "ok":
        ctx.obs["commented_base_raises_skipped"] += 1
        return
    q = run(text, True)
    l = run(text, False)
    ctx.obs["commented_pairs"] += 1
    ctx.nontrivial_case(digest("commented|" + text))
    if q[0] != "ok":
        return            # a comment that damages the statement is C08's subject
    if l[0] != "ok":
        ctx.violation("commented_supported_script_raises_when_loud", case, {"exception": l[1], "message": l[3], "silent_result_entities": len(q[1])})
    elif l[1] != q[1]:
        ctx.violation("loud_differs_from_silent", case, {"diffs": [(p, short(x, 120), short(y, 120)) for p, x, y in ddiff(l[1], q[1])[:4]]})


def run_shard(ctx):
    rng = ctx.rng
    kinds = GS.all_kinds()
    uns = G.all_unsupported()
    i = 0
    from vf.checks import c08
    for j in range(ctx.budget(160, 4000)):
        cc = c08.random_case(rng)
        check_case(ctx, {"gen": "commented", "base_text": "\n".join(cc["base"]) + "\n", "ddl": "\n".join(cc["lines"]) + "\n"})
    # every catalogue entry: alone, and before / between / after two neighbours
    for fam, u in uns:
        for variant in range(4):
            i += 1
            if not ctx.mine(i):
                continue
            r = ctx.sub_rng("cat", i)
            if variant == 0:
                groups, inserts = [], {"0": [u]}
            else:
                groups = [GS.gen_group(r, r.choice(kinds), 0), GS.gen_group(r, r.choice(kinds), 1)]
                inserts = {str(variant - 1): [u]}
            check_case(ctx, {"gen": "catalogue", "family": fam, "groups": groups, "inserts": inserts, "mode": r.choice(["sql", "hql", "mssql"])})
            ctx.obs_sets["families"].add(fam)
    # documented ignored lines: skipped in both settings
    for u in G.IGNORED:
        for gap in range(3):
            for rep in range(1 if ctx.tier == "quick" else 4):
                i += 1
                if ctx.mine(i):
                    r = ctx.sub_rng("ign", i)
                    groups = [GS.gen_group(r, r.choice(kinds), 0), GS.gen_group(r, r.choice(kinds), 1)]
                    check_case(ctx, {"gen": "ignored_line", "ignored_only": True, "groups": groups, "inserts": {str(gap): [u]}, "mode": r.choice(["sql", "mssql", "hql"])})
    # random mixes
    for j in range(ctx.budget(1000, 40000)):
        n = rng.randint(1, 4)
        groups = [GS.gen_group(rng, rng.choice(kinds), q) for q in range(n)]
        inserts = {}
        for _ in range(rng.choice([0, 1, 1, 2, 3])):
            inserts.setdefault(str(rng.randint(0, n)), []).append(rng.choice(uns)[1])
        case = {"gen": "random", "groups": groups, "inserts": inserts, "mode": rng.choice(["sql", "hql", "bigquery", "oracle", "snowflake"]),
                "via_file": j % 6 == 0}
        check_case(ctx, case)
        if j == 0:
            ctx.sample({"groups": groups, "inserts": inserts})
    # known-finding classes
    for j in range(ctx.budget(32, 300)):
        groups = [GS.gen_group(rng, rng.choice(kinds), 0)]
        if j % 2:
            check_case(ctx, {"gen": "kf", "feature": "set_line", "groups": groups, "inserts": {str(rng.randrange(2)): [rng.choice(G.SET_LINE)]}, "mode": "sql"})
        else:
            u = rng.choice(["SELECT 'abc FROM t;", "CREATE TABLE q1 (a varchar(9) DEFAULT '/* c */');", "UPDATE t SET a = 'it''s;"])
            check_case(ctx, {"gen": "kf", "feature": "lexer_error", "groups": groups, "inserts": {str(rng.randrange(2)): [u]}, "mode": "sql"})
    # unknown output modes
    for m in UNKNOWN_MODES:
        i += 1
        if ctx.mine(i):
            check_case(ctx, {"gen": "unknown_mode", "mode": m, "ddl": "CREATE TABLE t (a int);\n", "silent": bool(i % 2)})
    for j in range(ctx.budget(40, 2000)):
        base = rng.choice(MODES)
        m = rng.choice([base.upper(), base + " ", base[:-1], base + "x", base.replace("_", "-"), base.capitalize(), " " + base, base * 2])
        if m in MODES:
            continue
        check_case(ctx, {"gen": "unknown_mode", "mode": m, "ddl": GS.gen_mixed(rng, n=2)["text"], "silent": rng.random() < 0.5})
    # corpus: where loud returns, both settings agree
    corp = [c for c in load_corpus() if c["ok"] and not c["init_kw"]]
    n = ctx.budget(120, len(corp) + ctx.nshards)
    for j in range(n):
        idx = j * ctx.nshards + ctx.shard
        if ctx.tier == "quick":
            idx = (idx * 19 + ctx.seed) % len(corp)
        if idx >= len(corp):
            break
        check_case(ctx, {"gen": "corpus", "ddl": corp[idx]["ddl"], "run_kw": corp[idx]["run_kw"]})
