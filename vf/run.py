"""Boundary execution helper: construct a DDLParser on the snapshot and run it."""


def parse(ddl, ctor=None, **run_kw):
    """returns ("ok", result) or ("exc", "TypeName", "message")"""
    from simple_ddl_parser import DDLParser
    try:
        p = DDLParser(ddl, **(ctor or {}))
        return ("ok", p.run(**run_kw))
    except Exception as e:  # the exception *is* the observation
        return ("exc", type(e).__name__, str(e)[:300])


def entities(result):
    """flat result without the trailing comments entry"""
    return [e for e in result if not (isinstance(e, dict) and set(e.keys()) == {"comments"})]


def comments_of(result):
    out = []
    for e in result:
        if isinstance(e, dict) and set(e.keys()) == {"comments"}:
            out.extend(e["comments"])
    return out


MODES = ["sql", "redshift", "spark_sql", "mysql", "bigquery", "mssql", "databricks", "sqlite", "vertics",
         "ibm_db2", "postgres", "oracle", "hql", "snowflake", "athena"]
