"""Boundary execution helper: construct a DDLParser on the snapshot and run it."""


# Shadow oracle, active in every check: a small share of the parse() calls is repeated (a) as a second run() on the same object and
# (b) through parse_from_file(path, parser_settings=ctor, **run_kw); both must return exactly what the plain call returned.  The
# worker turns the recorded differences into violations of the property whose check was running: whatever the property says about the
# result of run() has to hold for every way of asking for it.
SHADOW = {"p": 0.0, "rng": None, "found": [], "n": 0}
import os as _os
CRLF_PATH = [_os.environ.get("VF_SHADOW_CRLF", "1") == "1"]
BYSTANDER = [_os.environ.get("VF_SHADOW_BYSTANDER", "1") == "1"]
NEIGHBOUR = [_os.environ.get("VF_SHADOW_NEIGHBOUR", "1") == "1"]
# statements that set most lexer modes (column list, CHECK, DEFAULT, REFERENCES, INDEX, SEQUENCE, ALTER, a skipped statement with mode words)
NB_PRE = ("CREATE TABLE vf_nb.pre_t (k int NOT NULL DEFAULT 0 CHECK (k > 0), r varchar(10) REFERENCES vf_nb.other_t (id), PRIMARY KEY (k));\n"
          "CREATE UNIQUE INDEX vf_nb_pre_i ON vf_nb.pre_t (r);\nCREATE SEQUENCE vf_nb.pre_seq START WITH 5 CACHE 10;\n"
          "ALTER TABLE vf_nb.pre_t ADD CONSTRAINT vf_nb_ck CHECK (k < 100);\nDROP INDEX CHECK DEFAULT;\n")
NB_POST = ("CREATE TABLE vf_nb.post_t (k int, `r x` decimal(10,2) DEFAULT 1.5, u text UNIQUE);\n"
           "ALTER TABLE vf_nb.post_t ADD z int;\nCREATE INDEX vf_nb_post_i ON vf_nb.post_t (k);\nCREATE SEQUENCE vf_nb.post_seq INCREMENT BY 2;\n")
NB_OPEN = "CREATE TABLE vf_nb.open_t (k int, v varchar(5))\n"
BYSTANDER_DDL = ("CREATE EXTERNAL TABLE \"By\".[stander] (`a` string, b MAP<STRING, INT>)\nROW FORMAT SERDE 'org.apache.hadoop.hive.serde2.RegexSerDe'\n"
                 "WITH SERDEPROPERTIES (\n  \"input.regex\" = \"(x+)(y+)\"\n)\nSTORED AS TEXTFILE;\nCREATE SEQUENCE by_seq START WITH 3 CACHE 7;\nALTER TABLE \"By\".[stander] ADD c int CHECK (c > 0);\n")


def parse(ddl, ctor=None, **run_kw):
    """returns ("ok", result) or ("exc", "TypeName", "message")"""
    from simple_ddl_parser import DDLParser
    try:
        p = DDLParser(ddl, **(ctor or {}))
        out = ("ok", p.run(**run_kw))
    except Exception as e:  # the exception *is* the observation
        out = ("exc", type(e).__name__, str(e)[:300])
        sh = SHADOW
        if BYSTANDER[0] and sh["p"] and sh["rng"] is not None and sh["rng"].random() < sh["p"]:
            _shadow_exc(ddl, ctor, run_kw, out)
        return out
    sh = SHADOW
    if sh["p"] and sh["rng"] is not None and sh["rng"].random() < sh["p"]:
        _shadow(p, ddl, ctor, run_kw, out[1])
    return out


def _bystander_ctor(ctor):
    """options of the object built in between: the opposite naming option and the opposite silent flag"""
    c = ctor or {}
    return {"normalize_names": not c.get("normalize_names", False), "silent": not c.get("silent", True)}


def _shadow_exc(ddl, ctor, run_kw, first):
    """(d') a call that RAISED, asked again of a fresh object with another object (opposite silent / naming options, never run) constructed
    between its construction and its run(): the same exception type and message have to come back"""
    from simple_ddl_parser import DDLParser
    sh = SHADOW
    try:
        p2 = DDLParser(ddl, **(ctor or {}))
    except Exception:
        return                                           # the constructor itself refuses: nothing to interleave
    try:
        DDLParser(BYSTANDER_DDL, **_bystander_ctor(ctor))
        by = ("ok", p2.run(**run_kw))
    except Exception as e:
        by = ("exc", type(e).__name__, str(e)[:300])
    sh["bystander_exc_n"] = sh.get("bystander_exc_n", 0) + 1
    if by != first and len(sh["found"]) < 20:
        sh["found"].append({"path": "raising call on a fresh object with another object constructed before its run()", "ddl": ddl, "ctor": ctor or {}, "run_kw": run_kw,
                            "observed": by, "first_call": first})


def _shadow(p, ddl, ctor, run_kw, first):
    import copy
    sh = SHADOW
    sh["n"] += 1
    try:
        keep = copy.deepcopy(first)
    except Exception:
        sh["uncopyable"] = sh.get("uncopyable", 0) + 1      # not plain data: left to the running check's own oracle
        return
    try:
        again = ("ok", p.run(**run_kw))
    except Exception as e:
        again = ("exc", type(e).__name__, str(e)[:200])
    if again != ("ok", keep) and len(sh["found"]) < 20:
        sh["found"].append({"path": "second run() on the same object", "ddl": ddl, "ctor": ctor or {}, "run_kw": run_kw, "observed": again, "first_call": keep})
    if first != keep and len(sh["found"]) < 20:
        sh["found"].append({"path": "result of the first run() modified by the second", "ddl": ddl, "ctor": ctor or {}, "run_kw": run_kw, "observed": first, "first_call": keep})
    if CRLF_PATH[0] and "\r" not in ddl and "\n" in ddl:
        # (c) the same text with Windows line ends handed to a fresh object
        try:
            from simple_ddl_parser import DDLParser
            cr = ("ok", DDLParser(ddl.replace("\n", "\r\n"), **(ctor or {})).run(**run_kw))
        except Exception as e:
            cr = ("exc", type(e).__name__, str(e)[:200])
        sh["crlf_n"] = sh.get("crlf_n", 0) + 1
        if cr != ("ok", keep) and len(sh["found"]) < 20:
            sh["found"].append({"path": "the same text with CRLF line ends", "ddl": ddl, "ctor": ctor or {}, "run_kw": run_kw, "observed": cr, "first_call": keep})
    if BYSTANDER[0]:
        # (d) a fresh object for the same text; between its construction and its run() ANOTHER object is built for another text with the opposite
        #     naming option (never run): the first object must still return what the plain call returned
        try:
            from simple_ddl_parser import DDLParser
            p2 = DDLParser(ddl, **(ctor or {}))
            DDLParser(BYSTANDER_DDL, **_bystander_ctor(ctor))
            by = ("ok", p2.run(**run_kw))
        except Exception as e:
            by = ("exc", type(e).__name__, str(e)[:200])
        sh["bystander_n"] = sh.get("bystander_n", 0) + 1
        if by != ("ok", keep) and len(sh["found"]) < 20 and not ({"dump", "dump_path"} & set(run_kw)):
            sh["found"].append({"path": "fresh object with another object constructed before its run()", "ddl": ddl, "ctor": ctor or {}, "run_kw": run_kw, "observed": by, "first_call": keep})
    if NEIGHBOUR[0] and not ({"file_path", "dump", "dump_path"} & set(run_kw)):
        _neighbours(ddl, ctor, run_kw, keep)
        # (f) the same text with / without a line end behind its last line
        other = ddl.rstrip("\r\n") if ddl.endswith("\n") else ddl + "\n"
        try:
            from simple_ddl_parser import DDLParser
            tn = ("ok", DDLParser(other, **(ctor or {})).run(**run_kw))
        except Exception as e:
            tn = ("exc", type(e).__name__, str(e)[:200])
        sh["final_newline_n"] = sh.get("final_newline_n", 0) + 1
        if tn != ("ok", keep) and len(sh["found"]) < 20:
            sh["found"].append({"path": "the same text %s a line end behind its last line" % ("without" if ddl.endswith("\n") else "with"), "ddl": ddl, "ctor": ctor or {},
                                "run_kw": run_kw, "observed": tn, "first_call": keep})
    if "\r" not in ddl and not ({"file_path", "dump", "dump_path"} & set(run_kw)):
        vf = parse_via_file(ddl, ctor, **run_kw)
        if vf != ("ok", keep) and len(sh["found"]) < 20:
            sh["found"].append({"path": "parse_from_file(path, parser_settings=ctor, **run_kw)", "ddl": ddl, "ctor": ctor or {}, "run_kw": run_kw, "observed": vf, "first_call": keep})


def _combine(a, b):
    """what a script made of the statements of a followed by the statements of b has to return, given what each returns alone"""
    if isinstance(a, list) and isinstance(b, list):
        com = comments_of(a) + comments_of(b)
        return entities(a) + entities(b) + ([{"comments": com}] if com else [])
    if isinstance(a, dict) and isinstance(b, dict):
        out = {}
        for k in list(a) + [k for k in b if k not in a]:
            x, y = a.get(k, []), b.get(k, [])
            if not isinstance(x, list) or not isinstance(y, list):
                return None
            out[k] = x + y
        return out
    return None


def _same_grouped(x, y):
    if isinstance(x, dict) and isinstance(y, dict):
        return {k: v for k, v in x.items() if v != []} == {k: v for k, v in y.items() if v != []}
    return x == y


def _neighbours(ddl, ctor, run_kw, keep):
    """(e) the same script with complete, terminated statements about OTHER objects in front of it / behind it: what it reports for its own
    statements must not change (statements are parsed independently), whatever the check that produced the script is about"""
    from simple_ddl_parser import DDLParser
    sh = SHADOW

    def go(text):
        try:
            return ("ok", DDLParser(text, **(ctor or {})).run(**run_kw))
        except Exception as e:
            return ("exc", type(e).__name__, str(e)[:200])
    body = ddl.rstrip()
    if "vf_nb" in ddl:
        return
    plans = [("statements of other objects in front of the script", NB_PRE, True)]
    if body.endswith(";") and body.count("/*") == body.count("*/"):
        plans.append(("statements of other objects behind the script", NB_POST, False))
    import re as _re
    if _re.match(r"(CREATE|ALTER|DROP)[ ]+\S", ddl, _re.I) and isinstance(keep, list):
        # a statement WITHOUT ';' in front: it is closed by the first line of the script; asked with the script's last line end toggled as well
        plans.append(("a statement without its terminator in front of the script", NB_OPEN, True))
    for path, nb, front in plans:
        if nb is NB_OPEN and sh["rng"].random() < 0.5:
            ddl = ddl.rstrip("\r\n") if ddl.endswith("\n") else ddl + "\n"
        alone = go(nb)
        if alone[0] != "ok" and front and "DROP INDEX" in nb:
            nb = nb[:nb.index("DROP INDEX")]              # loud mode refuses the skipped statement: go without it
            alone = go(nb)
        if alone[0] != "ok":
            continue                                     # the neighbour itself is refused under these options: nothing to compare
        exp = _combine(alone[1], keep) if front else _combine(keep, alone[1])
        if exp is None:
            continue
        got = go(nb + ddl if front else body + "\n" + nb)
        sh["neighbour_n"] = sh.get("neighbour_n", 0) + 1
        if not (got[0] == "ok" and _same_grouped(got[1], exp)) and len(sh["found"]) < 20:
            sh["found"].append({"path": path, "ddl": ddl, "ctor": ctor or {}, "run_kw": run_kw, "observed": got, "first_call": exp})


def classify_shadow(f):
    """known-finding key for a shadow difference, by input feature and shape of the deviation (known_findings.json), else None.
    No open finding is reported through the shadow paths at present (the one there was, F23, is repaired)."""
    return None


def entities(result):
    """flat result without the trailing comments entry"""
    return [e for e in result if not (isinstance(e, dict) and set(e.keys()) == {"comments"})]


def comments_of(result):
    out = []
    for e in result:
        if isinstance(e, dict) and set(e.keys()) == {"comments"}:
            out.extend(e["comments"])
    return out


MODES = ["sql", "redshift", "spark_sql", "mysql", "bigquery", "mssql", "databricks", "sqlite", "vertics",
         "ibm_db2", "postgres", "oracle", "hql", "snowflake", "athena"]


def run_history(ddl, ctor, kw_list):
    """ONE parser object run once per entry of kw_list, in order; -> list of ("ok", deep-copied result) | ("exc", type, msg).
    Used by the relational checks to see that what run(**kw) returns does not depend on which calls were made before on the
    same object (the result of every call is compared with a fresh object's by the caller)."""
    import copy
    from simple_ddl_parser import DDLParser
    out = []
    try:
        p = DDLParser(ddl, **(ctor or {}))
    except Exception as e:
        return [("exc", type(e).__name__, str(e)[:300])] * len(kw_list)
    for kw in kw_list:
        try:
            res = p.run(**kw)
            try:
                res = copy.deepcopy(res)
            except Exception:
                pass                                         # not plain data: the caller's oracle sees the object itself
            out.append(("ok", res))
        except Exception as e:
            out.append(("exc", type(e).__name__, str(e)[:300]))
    return out


def parse_via_file(ddl, ctor=None, **run_kw):
    """the same call through the file entry point: parse_from_file(path, parser_settings=ctor, **run_kw) on a temp file"""
    import os
    import tempfile
    from simple_ddl_parser import parse_from_file
    fd, path = tempfile.mkstemp(suffix=".sql", prefix="vf_file_")
    try:
        with os.fdopen(fd, "w", encoding="utf-8", newline="") as f:
            f.write(ddl)
        try:
            return ("ok", parse_from_file(path, parser_settings=dict(ctor) if ctor else None, **run_kw))
        except Exception as e:
            return ("exc", type(e).__name__, str(e)[:300])
    finally:
        try:
            os.remove(path)
        except OSError:
            pass
