"""Boundary execution helper: construct a DDLParser on the snapshot and run it."""


# Shadow oracle, active in every check: a small share of the parse() calls is repeated (a) as a second run() on the same object and
# (b) through parse_from_file(path, parser_settings=ctor, **run_kw); both must return exactly what the plain call returned.  The
# worker turns the recorded differences into violations of the property whose check was running: whatever the property says about the
# result of run() has to hold for every way of asking for it.
SHADOW = {"p": 0.0, "rng": None, "found": [], "n": 0}
import os as _os
CRLF_PATH = [_os.environ.get("VF_SHADOW_CRLF", "1") == "1"]
BYSTANDER = [_os.environ.get("VF_SHADOW_BYSTANDER", "1") == "1"]
BYSTANDER_DDL = ("CREATE EXTERNAL TABLE \"By\".[stander] (`a` string, b MAP<STRING, INT>)\nROW FORMAT SERDE 'org.apache.hadoop.hive.serde2.RegexSerDe'\n"
                 "WITH SERDEPROPERTIES (\n  \"input.regex\" = \"(x+)(y+)\"\n)\nSTORED AS TEXTFILE;\nCREATE SEQUENCE by_seq START WITH 3 CACHE 7;\nALTER TABLE \"By\".[stander] ADD c int CHECK (c > 0);\n")


def parse(ddl, ctor=None, **run_kw):
    """returns ("ok", result) or ("exc", "TypeName", "message")"""
    from simple_ddl_parser import DDLParser
    try:
        p = DDLParser(ddl, **(ctor or {}))
        out = ("ok", p.run(**run_kw))
    except Exception as e:  # the exception *is* the observation
        return ("exc", type(e).__name__, str(e)[:300])
    sh = SHADOW
    if sh["p"] and sh["rng"] is not None and sh["rng"].random() < sh["p"]:
        _shadow(p, ddl, ctor, run_kw, out[1])
    return out


def _shadow(p, ddl, ctor, run_kw, first):
    import copy
    sh = SHADOW
    sh["n"] += 1
    try:
        keep = copy.deepcopy(first)
    except Exception:
        sh["uncopyable"] = sh.get("uncopyable", 0) + 1      # not plain data: left to the running check's own oracle
        return
    try:
        again = ("ok", p.run(**run_kw))
    except Exception as e:
        again = ("exc", type(e).__name__, str(e)[:200])
    if again != ("ok", keep) and len(sh["found"]) < 20:
        sh["found"].append({"path": "second run() on the same object", "ddl": ddl, "ctor": ctor or {}, "run_kw": run_kw, "observed": again, "first_call": keep})
    if first != keep and len(sh["found"]) < 20:
        sh["found"].append({"path": "result of the first run() modified by the second", "ddl": ddl, "ctor": ctor or {}, "run_kw": run_kw, "observed": first, "first_call": keep})
    if CRLF_PATH[0] and "\r" not in ddl and "\n" in ddl:
        # (c) the same text with Windows line ends handed to a fresh object
        try:
            from simple_ddl_parser import DDLParser
            cr = ("ok", DDLParser(ddl.replace("\n", "\r\n"), **(ctor or {})).run(**run_kw))
        except Exception as e:
            cr = ("exc", type(e).__name__, str(e)[:200])
        sh["crlf_n"] = sh.get("crlf_n", 0) + 1
        if cr != ("ok", keep) and len(sh["found"]) < 20:
            sh["found"].append({"path": "the same text with CRLF line ends", "ddl": ddl, "ctor": ctor or {}, "run_kw": run_kw, "observed": cr, "first_call": keep})
    if BYSTANDER[0]:
        # (d) a fresh object for the same text; between its construction and its run() ANOTHER object is built for another text with the opposite
        #     naming option (never run): the first object must still return what the plain call returned
        try:
            from simple_ddl_parser import DDLParser
            p2 = DDLParser(ddl, **(ctor or {}))
            DDLParser(BYSTANDER_DDL, normalize_names=not (ctor or {}).get("normalize_names", False))
            by = ("ok", p2.run(**run_kw))
        except Exception as e:
            by = ("exc", type(e).__name__, str(e)[:200])
        sh["bystander_n"] = sh.get("bystander_n", 0) + 1
        if by != ("ok", keep) and len(sh["found"]) < 20 and not ({"dump", "dump_path"} & set(run_kw)):
            sh["found"].append({"path": "fresh object with another object constructed before its run()", "ddl": ddl, "ctor": ctor or {}, "run_kw": run_kw, "observed": by, "first_call": keep})
    if "\r" not in ddl and not ({"file_path", "dump", "dump_path"} & set(run_kw)):
        vf = parse_via_file(ddl, ctor, **run_kw)
        if vf != ("ok", keep) and len(sh["found"]) < 20:
            sh["found"].append({"path": "parse_from_file(path, parser_settings=ctor, **run_kw)", "ddl": ddl, "ctor": ctor or {}, "run_kw": run_kw, "observed": vf, "first_call": keep})


def entities(result):
    """flat result without the trailing comments entry"""
    return [e for e in result if not (isinstance(e, dict) and set(e.keys()) == {"comments"})]


def comments_of(result):
    out = []
    for e in result:
        if isinstance(e, dict) and set(e.keys()) == {"comments"}:
            out.extend(e["comments"])
    return out


MODES = ["sql", "redshift", "spark_sql", "mysql", "bigquery", "mssql", "databricks", "sqlite", "vertics",
         "ibm_db2", "postgres", "oracle", "hql", "snowflake", "athena"]


def run_history(ddl, ctor, kw_list):
    """ONE parser object run once per entry of kw_list, in order; -> list of ("ok", deep-copied result) | ("exc", type, msg).
    Used by the relational checks to see that what run(**kw) returns does not depend on which calls were made before on the
    same object (the result of every call is compared with a fresh object's by the caller)."""
    import copy
    from simple_ddl_parser import DDLParser
    out = []
    try:
        p = DDLParser(ddl, **(ctor or {}))
    except Exception as e:
        return [("exc", type(e).__name__, str(e)[:300])] * len(kw_list)
    for kw in kw_list:
        try:
            res = p.run(**kw)
            try:
                res = copy.deepcopy(res)
            except Exception:
                pass                                         # not plain data: the caller's oracle sees the object itself
            out.append(("ok", res))
        except Exception as e:
            out.append(("exc", type(e).__name__, str(e)[:300]))
    return out


def parse_via_file(ddl, ctor=None, **run_kw):
    """the same call through the file entry point: parse_from_file(path, parser_settings=ctor, **run_kw) on a temp file"""
    import os
    import tempfile
    from simple_ddl_parser import parse_from_file
    fd, path = tempfile.mkstemp(suffix=".sql", prefix="vf_file_")
    try:
        with os.fdopen(fd, "w", encoding="utf-8", newline="") as f:
            f.write(ddl)
        try:
            return ("ok", parse_from_file(path, parser_settings=dict(ctor) if ctor else None, **run_kw))
        except Exception as e:
            return ("exc", type(e).__name__, str(e)[:300])
    finally:
        try:
            os.remove(path)
        except OSError:
            pass
