"""Snapshot of /repo's *working tree* in a scratch directory.

/repo is never written by a check: PLY rewrites parsetab.py next to the package whenever the
cached signature is stale, which would dirty the tree under test.  Every check therefore
copies `simple_ddl_parser/` (and `tests/` for the corpus) to a fresh temporary directory and
puts that directory first on PYTHONPATH, which shadows the editable install in /venv.
"""
import os
import shutil
import subprocess
import sys
import tempfile

REPO = os.environ.get("VF_REPO", "/repo")
PY = os.environ.get("VF_PYTHON", "/venv/bin/python")
VERIF = os.path.dirname(os.path.dirname(os.path.abspath(__file__)))


class Snapshot:
    def __init__(self, with_tests=False, prime=True):
        self.dir = tempfile.mkdtemp(prefix="vf_snap_")
        ign = shutil.ignore_patterns("__pycache__", "*.pyc", "parser.out")
        shutil.copytree(os.path.join(REPO, "simple_ddl_parser"), os.path.join(self.dir, "simple_ddl_parser"), ignore=ign)
        if with_tests and os.path.isdir(os.path.join(REPO, "tests")):
            shutil.copytree(os.path.join(REPO, "tests"), os.path.join(self.dir, "tests"), ignore=ign)
        self.primed = None
        if prime:
            self.primed = self.prime()

    def env(self, **extra):
        e = dict(os.environ)
        e["PYTHONPATH"] = self.dir + os.pathsep + VERIF
        e["VF_SNAPSHOT"] = self.dir
        e.setdefault("PYTHONHASHSEED", "0")
        e["PYTHONDONTWRITEBYTECODE"] = "1"
        e["SIMPLE_DDL_PARSER_VERIF"] = "1"
        e.update({k: str(v) for k, v in extra.items()})
        return e

    def prime(self):
        """construct one parser so that parallel workers never race on regenerating parsetab.py"""
        code = (
            "import simple_ddl_parser, os, sys\n"
            "assert os.path.dirname(simple_ddl_parser.__file__).startswith(os.environ['VF_SNAPSHOT']), simple_ddl_parser.__file__\n"
            "simple_ddl_parser.DDLParser('CREATE TABLE t (a int);').run()\n"
            "print('primed')\n"
        )
        try:
            r = subprocess.run([PY, "-B", "-c", code], env=self.env(), capture_output=True, text=True, timeout=300)
        except subprocess.TimeoutExpired:
            return "timeout"
        if r.returncode != 0 or "primed" not in r.stdout:
            return "failed: " + (r.stderr or r.stdout)[-2000:]
        return "ok"

    def cleanup(self):
        shutil.rmtree(self.dir, ignore_errors=True)

    def __enter__(self):
        return self

    def __exit__(self, *a):
        self.cleanup()


def scratch_dir(prefix="vf_tmp_"):
    return tempfile.mkdtemp(prefix=prefix)


if __name__ == "__main__":
    with Snapshot() as s:
        print(s.dir, s.primed)
        sys.exit(0 if s.primed == "ok" else 2)
