"""Per-shard context handed to a check's run_shard(ctx): RNG, budgets, recording of
evaluations / violations / samples / observation counters."""
import collections
import json
import os
import random
import traceback

from vf.util import digest, jsonable, short


class Ctx:
    def __init__(self, prop, tier, shard, nshards, seed, snapshot=None, replay=False):
        self.prop = prop
        self.tier = tier
        self.shard = shard
        self.nshards = nshards
        self.seed = seed
        self.snapshot = snapshot or os.environ.get("VF_SNAPSHOT")
        self.replay = replay
        self.rng = random.Random("%s|%s|%s|%s" % (prop, tier, seed, shard))
        self.evaluations = 0
        self.nontrivial = set()
        self.violations = []
        self.vcount = collections.Counter()
        self.samples = []
        self.obs = collections.Counter()
        self.obs_sets = collections.defaultdict(set)
        self.notes = []
        self.inconclusive = []

    # ------------------------------------------------------------ budgets
    def budget(self, quick, thorough):
        """number of cases for *this shard* given whole-run targets"""
        total = quick if self.tier == "quick" else thorough
        base, rem = divmod(total, self.nshards)
        return base + (1 if self.shard < rem else 0)

    def mine(self, i):
        """round-robin ownership of enumerated case i"""
        return i % self.nshards == self.shard

    def sub_rng(self, *key):
        return random.Random("%s|%s|%s|%s" % (self.prop, self.tier, self.seed, "|".join(map(str, key))))

    # ------------------------------------------------------------ recording
    def evaluated(self, n=1):
        self.evaluations += n

    def nontrivial_case(self, key):
        self.nontrivial.add(key if isinstance(key, str) and len(key) <= 16 else digest(key))

    def sample(self, obj, limit=4):
        if len(self.samples) < limit:
            self.samples.append(jsonable(obj))

    def violation(self, kind, case, detail, kf=None):
        """kind: short mechanism-level label; case: JSON-able description that check_case can re-run;
        detail: what was expected / observed; kf: known-finding key when the classifier explains it"""
        self.vcount[(kind, kf)] += 1
        # keep the first few of each (kind, kf) only
        if self.vcount[(kind, kf)] <= 5:
            self.violations.append({"kind": kind, "kf": kf, "case": jsonable(case), "detail": jsonable(detail)})

    def inconclusive_because(self, why):
        self.inconclusive.append(why)

    def result(self):
        return {
            "shard": self.shard,
            "evaluations": self.evaluations,
            "nontrivial": sorted(self.nontrivial),
            "violations": self.violations,
            "vcount": [[k[0], k[1], n] for k, n in self.vcount.items()],
            "samples": self.samples,
            "obs": dict(self.obs),
            "obs_sets": {k: sorted(v)[:5000] for k, v in self.obs_sets.items()},
            "notes": self.notes,
            "inconclusive": self.inconclusive,
        }
